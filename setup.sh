#!/bin/bash
# Run once after a fresh restore, offline: verifies the tools the checks need and creates scratch directories.
set -e
cd "$(dirname "$0")"
mkdir -p out/replay evidence
command -v java >/dev/null
test -f /opt/veriftools/tla/tla2tools.jar
/venv/bin/python -c "import numpy, sklearn, joblib, pandas; import mabwiser.mab" 
echo "setup ok"
