------------------------------ MODULE TracePar ------------------------------
(***************************************************************************)
(* Validation of recorded _parallel_predict executions (real joblib runs,  *)
(* guarded hooks) against Par.tla: the partition the code used is          *)
(* CodePartition, every chunk was handed to exactly one _predict_contexts  *)
(* call with its start index, and the seeds it received are the slice of   *)
(* the seeds drawn from the main stream for exactly its rows.              *)
(***************************************************************************)
EXTENDS Par, IOUtils

Calls == JsonDeserialize(IOEnv.TRACE_FILE)
VARIABLE tid
tvars == <<vars, tid>>

Check(name, cond) == IF cond THEN TRUE ELSE PrintT(<<"FAIL", tid, name>>) /\ FALSE

CallOK(c) ==
    LET p == CodePartition(c.n, c.nj, c.cpu) IN
    /\ Check("partition.k", c.part.k = p.k)
    /\ Check("partition.sizes", c.part.sizes = p.sizes)
    /\ Check("partition.starts", c.part.starts = p.starts)
    /\ Check("partition.cover", IsExactCover(c.n, p))
    /\ Check("seeds.count", Len(c.seeds) = c.n)
    /\ Check("chunks.count", Len(c.chunks) = p.k)
    /\ Check("chunks.each_once",
             \A i \in 1..p.k : Cardinality({j \in DOMAIN c.chunks : c.chunks[j].start = p.starts[i]}) = 1)
    /\ Check("chunks.length",
             \A j \in DOMAIN c.chunks : \E i \in 1..p.k : c.chunks[j].start = p.starts[i] /\ c.chunks[j].len = p.sizes[i])
    /\ Check("chunks.seeds",
             \A j \in DOMAIN c.chunks :
                 c.chunks[j].seeds = SubSeq(c.seeds, c.chunks[j].start + 1, c.chunks[j].start + c.chunks[j].len))

TInit == /\ Init /\ tid \in 1..Len(Calls)
TNext == /\ phase = "seeds"
         /\ CallOK(Calls[tid])
         /\ PrintT(<<"OK", tid>>)
         /\ phase' = "checked"
         /\ UNCHANGED <<m, backend, part, mainPos, seedOf, nxt, wpos, out, order, sched, fitDone, model, tid>>
=============================================================================
