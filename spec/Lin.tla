-------------------------------- MODULE Lin --------------------------------
(***************************************************************************)
(* Linear policies of MABWiser (LinGreedy, LinUCB, LinTS): one ridge       *)
(* regression per arm, trained incrementally.                              *)
(*                                                                         *)
(* Impl-shaped layer: per arm the code keeps A = lambda*I + X'X and        *)
(* Xty = X'y and adds the rows of every fit / partial_fit batch to them    *)
(* (_RidgeRegression.fit); beta = A^-1 Xty.  Documented meaning: the ridge *)
(* regression of exactly the arm's rows since the most recent fit.  All    *)
(* arithmetic is exact over rationals (d <= 2: inverse by adjugate).       *)
(* A query is described by the exact x.beta and the exact squared LinUCB   *)
(* bonus x' A^-1 x; the harness adds alpha*sqrt(.) numerically.            *)
(***************************************************************************)
EXTENDS Integers, Sequences, FiniteSets, TLC, Json, Rat

CONSTANTS
    Labels, InitArms,
    D,          \* number of features (1 or 2)
    Ctx,        \* context points: sequences of D integers
    Rewards,    \* integers (units)
    Lambda,     \* l2_lambda, rational <<n, d>>
    MaxBatch, MaxHist, MaxDepth, Ops, QuerySets,   \* QuerySets: set of sequences of context points
    Scaled,     \* scale=True: features are standardised per arm (covered for a single fit, as the property states)
    Feat,       \* [Labels -> sequence of Int] arm features for warm_start (integer norms)
    Quantiles,  \* set of rationals
    Dev

VARIABLES arms, fitted, hist, born, A, B, status, last
vars == <<arms, fitted, hist, born, A, B, status, last>>
modelVars == <<arms, fitted, A, B, status>>

RangeS(s) == {s[i] : i \in DOMAIN s}
Extend(f, a, v) == [x \in DOMAIN f \cup {a} |-> IF x = a THEN v ELSE f[x]]
Restrict(f, S) == [x \in S |-> f[x]]

(* matrices are D x D sequences of rows of rationals, vectors sequences of D rationals *)
Idx == 1..D
ZeroM == [i \in Idx |-> [j \in Idx |-> RZero]]
ZeroV == [i \in Idx |-> RZero]
LamI == [i \in Idx |-> [j \in Idx |-> IF i = j THEN Lambda ELSE RZero]]
MAdd(M, N) == [i \in Idx |-> [j \in Idx |-> RAdd(M[i][j], N[i][j])]]
VAdd(u, v) == [i \in Idx |-> RAdd(u[i], v[i])]
Outer(x) == [i \in Idx |-> [j \in Idx |-> R(x[i] * x[j])]]
Scale(x, y) == [i \in Idx |-> R(x[i] * y)]
Det(M) == IF D = 1 THEN M[1][1] ELSE RSub(RMul(M[1][1], M[2][2]), RMul(M[1][2], M[2][1]))
Inv(M) == IF D = 1 THEN <<<<RDiv(ROne, M[1][1])>>>>
          ELSE LET dt == Det(M) IN
               << <<RDiv(M[2][2], dt), RDiv(RNeg(M[1][2]), dt)>>,
                  <<RDiv(RNeg(M[2][1]), dt), RDiv(M[1][1], dt)>> >>
MV(M, v) == [i \in Idx |-> RSumSeq([j \in Idx |-> RMul(M[i][j], v[j])])]
DotR(u, v) == RSumSeq([i \in Idx |-> RMul(u[i], v[i])])
RV(x) == [i \in Idx |-> R(x[i])]

Beta(a) == MV(Inv(A[a]), B[a])

Rows == [a : Labels, r : Rewards, x : Ctx]
Batches == UNION {[1..k -> Rows] : k \in 1..MaxBatch}

RECURSIVE AddRows(_, _, _, _)
AddRows(acc, b, a, i) ==       \* acc = <<A, B>>
    IF i > Len(b) THEN acc
    ELSE IF b[i].a # a THEN AddRows(acc, b, a, i + 1)
    ELSE AddRows(<<MAdd(acc[1], Outer(b[i].x)),
                   IF "XtyOverwritten" \in Dev THEN Scale(b[i].x, b[i].r) ELSE VAdd(acc[2], Scale(b[i].x, b[i].r))>>,
                 b, a, i + 1)

BatchLabels(b) == {b[i].a : i \in DOMAIN b}
Cold == [tr |-> FALSE, wm |-> FALSE, by |-> "none"]

Init ==
    /\ arms = InitArms /\ fitted = FALSE /\ hist = <<>>
    /\ born = [a \in RangeS(InitArms) |-> 0]
    /\ A = [a \in RangeS(InitArms) |-> LamI] /\ B = [a \in RangeS(InitArms) |-> ZeroV]
    /\ status = [a \in RangeS(InitArms) |-> Cold]
    /\ last = [op |-> "init"]

DoFit(b) ==
    /\ fitted' = TRUE /\ arms' = arms
    /\ hist' = b /\ born' = [a \in RangeS(arms) |-> 0]
    /\ A' = [a \in RangeS(arms) |-> AddRows(<<IF "FitKeepsA" \in Dev THEN A[a] ELSE LamI, ZeroV>>, b, a, 1)[1]]
    /\ B' = [a \in RangeS(arms) |-> AddRows(<<LamI, ZeroV>>, b, a, 1)[2]]
    /\ status' = [a \in RangeS(arms) |-> [tr |-> a \in BatchLabels(b), wm |-> FALSE, by |-> "none"]]

Fit(b) == /\ "fit" \in Ops
          /\ (Scaled => ~fitted)          \* scale=True is specified for a single fit only
          /\ DoFit(b) /\ last' = [op |-> "fit", batch |-> b]

PartialFit(b) ==
    /\ "partial_fit" \in Ops
    /\ IF ~fitted THEN DoFit(b)
       ELSE /\ Len(hist) + Len(b) <= MaxHist
            /\ fitted' = fitted /\ arms' = arms /\ born' = born
            /\ hist' = hist \o b
            /\ A' = [a \in RangeS(arms) |-> AddRows(<<A[a], B[a]>>, b, a, 1)[1]]
            /\ B' = [a \in RangeS(arms) |-> AddRows(<<A[a], B[a]>>, b, a, 1)[2]]
            /\ status' = [a \in RangeS(arms) |-> [status[a] EXCEPT !.tr = @ \/ a \in BatchLabels(b)]]
    /\ last' = [op |-> "partial_fit", batch |-> b]

AddArm(a) ==
    /\ "add_arm" \in Ops /\ a \in Labels \ RangeS(arms)
    /\ arms' = Append(arms, a)
    /\ A' = Extend(A, a, LamI) /\ B' = Extend(B, a, ZeroV)
    /\ status' = Extend(status, a, Cold) /\ born' = Extend(born, a, Len(hist))
    /\ UNCHANGED <<fitted, hist>>
    /\ last' = [op |-> "add_arm", arm |-> a]

RemoveArm(a) ==
    /\ "remove_arm" \in Ops /\ a \in RangeS(arms) /\ Len(arms) > 1
    /\ arms' = SelectSeq(arms, LAMBDA x : x # a)
    /\ A' = Restrict(A, RangeS(arms) \ {a}) /\ B' = Restrict(B, RangeS(arms) \ {a})
    /\ status' = Restrict(status, RangeS(arms) \ {a}) /\ born' = Restrict(born, RangeS(arms) \ {a})
    /\ UNCHANGED <<fitted, hist>>
    /\ last' = [op |-> "remove_arm", arm |-> a]

(* warm start (same rule as Mab.tla): a cold arm receives an exact copy of the model of the closest trained arm
   (cosine distance on the arm features, first in arm order on ties) if that distance is within the quantile
   threshold of the closest-pair distances *)
DotI(u, v)  == ISumSeq([i \in DOMAIN u |-> u[i] * v[i]])
ISqrt(n)    == CHOOSE k \in 0..n : k * k = n
SelfDist    == <<999999, 1>>
CosDist0(x, y) ==
    IF x = y THEN SelfDist
    ELSE LET nx == ISqrt(DotI(Feat[x], Feat[x]))  ny == ISqrt(DotI(Feat[y], Feat[y]))
         IN  IF nx = 0 \/ ny = 0 THEN SelfDist ELSE RSub(ROne, RFrac(DotI(Feat[x], Feat[y]), nx * ny))
CosTab == [x \in Labels |-> [y \in Labels |-> CosDist0(x, y)]]
CosDist(x, y) == CosTab[x][y]
Closest(x) == RMinSeq([i \in DOMAIN arms |-> CosDist(x, arms[i])])
ClosestList == SelectSeq([i \in DOMAIN arms |-> Closest(arms[i])], LAMBDA d : d # SelfDist)
ColdArms    == SelectSeq(arms, LAMBDA a : ~status[a].tr /\ ~status[a].wm)
TrainedArms == SelectSeq(arms, LAMBDA a : status[a].tr)
RECURSIVE ArgMinFrom(_, _, _, _)
ArgMinFrom(c, cand, i, best) ==
    IF i > Len(cand) THEN best
    ELSE ArgMinFrom(c, cand, i + 1, IF RLt(CosDist(c, cand[i]), CosDist(c, best)) THEN cand[i] ELSE best)
NearestSource(c) == ArgMinFrom(c, TrainedArms, 2, TrainedArms[1])
WarmMap(q) ==
    LET thr == RQuantile(ClosestList, q)
        W == {c \in RangeS(ColdArms) : Len(TrainedArms) > 0 /\ RLeq(CosDist(c, NearestSource(c)), thr)}
    IN  [c \in W |-> NearestSource(c)]
WarmUnambiguous(q) ==
    \/ RMul(R(Len(ClosestList) - 1), q)[2] = 1
    \/ LET thr == RQuantile(ClosestList, q)
       IN  \A c \in RangeS(ColdArms) : Len(TrainedArms) > 0 => CosDist(c, NearestSource(c)) # thr

WarmStart(q) ==
    /\ "warm_start" \in Ops /\ fitted /\ q \in Quantiles
    /\ Len(ClosestList) > 0 /\ WarmUnambiguous(q)
    /\ LET wm == WarmMap(q) IN
       /\ A' = [a \in RangeS(arms) |-> IF a \in DOMAIN wm THEN A[wm[a]] ELSE A[a]]
       /\ B' = [a \in RangeS(arms) |-> IF a \in DOMAIN wm THEN B[wm[a]] ELSE B[a]]
       /\ status' = [a \in RangeS(arms) |-> IF a \in DOMAIN wm THEN [tr |-> FALSE, wm |-> TRUE, by |-> wm[a]] ELSE status[a]]
       /\ last' = [op |-> "warm_start", q |-> q, map |-> wm]
    /\ UNCHANGED <<arms, fitted, hist, born>>

(* the documented covariance of an arm: A^-1; for an arm never observed that is I/lambda *)
Cov(a) == IF "RidgeInitAinv" \in Dev /\ A[a] = LamI THEN LamI ELSE Inv(A[a])

ArmAtRaw(a, x) == [xb |-> DotR(RV(x), Beta(a)), bonus2 |-> DotR(RV(x), MV(Cov(a), RV(x)))]

(* scale=True, single fit.  With mu the mean and s2 the population variance of the arm's own contexts
   (s2 replaced by 1 where it is 0), Xc the centred contexts, C = Xc'Xc and c = Xc'y, the ridge regression
   on the standardised features predicts  (x-mu)' (C + lambda*diag(s2))^-1 c  and its squared LinUCB
   bonus is  (x-mu)' (C + lambda*diag(s2))^-1 (x-mu): both rational although the scaling itself is not. *)
OwnRows(a) == SelectSeq(hist, LAMBDA row : row.a = a)
ScaledAt(a, x) ==
    LET rows == OwnRows(a)
        n    == Len(rows)
        mu   == [i \in Idx |-> RDiv(RSumSeq([k \in 1..n |-> R(rows[k].x[i])]), R(n))]
        cen(k) == [i \in Idx |-> RSub(R(rows[k].x[i]), mu[i])]
        s2raw == [i \in Idx |-> RDiv(RSumSeq([k \in 1..n |-> RMul(cen(k)[i], cen(k)[i])]), R(n))]
        s2   == [i \in Idx |-> IF RIsZero(s2raw[i]) THEN ROne ELSE s2raw[i]]
        C    == [i \in Idx |-> [j \in Idx |-> RSumSeq([k \in 1..n |-> RMul(cen(k)[i], cen(k)[j])])]]
        cv   == [i \in Idx |-> RSumSeq([k \in 1..n |-> RMul(cen(k)[i], R(rows[k].r))])]
        M    == [i \in Idx |-> [j \in Idx |-> IF i = j THEN RAdd(C[i][j], RMul(Lambda, s2[i])) ELSE C[i][j]]]
        Mi   == Inv(M)
        xc   == [i \in Idx |-> RSub(R(x[i]), mu[i])]
    IN  IF n = 0 THEN [xb |-> RZero, bonus2 |-> RDiv(DotR(RV(x), RV(x)), Lambda)]
        ELSE [xb |-> DotR(xc, MV(Mi, cv)), bonus2 |-> DotR(xc, MV(Mi, xc))]

ArmAt(a, x) == IF Scaled THEN ScaledAt(a, x) ELSE ArmAtRaw(a, x)

Query(op, X) ==
    /\ op \in Ops /\ fitted /\ X \in QuerySets
    /\ last' = [op |-> op, X |-> X,
                res |-> [i \in DOMAIN X |-> [a \in RangeS(arms) |-> ArmAt(a, X[i])]]]
    /\ UNCHANGED <<arms, fitted, hist, born, A, B, status>>

Next ==
    \/ \E b \in Batches : Fit(b) \/ PartialFit(b)
    \/ \E a \in Labels : AddArm(a) \/ RemoveArm(a)
    \/ \E X \in QuerySets : Query("predict_expectations", X) \/ Query("predict", X)
    \/ \E q \in Quantiles : WarmStart(q)

Spec == Init /\ [][Next]_vars

\* (only variables: TLC evaluates computed expressions under a prime without caching LET definitions,
\*  which made emitting Beta(a)' pathologically slow; beta is re-derived from A and B by the harness with
\*  exact fractions, and Inv_C02_Solves checks the specification's own Beta)
StateRec == [arms |-> arms, fitted |-> fitted, hist |-> hist, born |-> born, A |-> A, B |-> B, status |-> status]
View  == <<arms, fitted, hist, born, A, B, status>>
Bound == Len(hist) <= MaxHist /\ TLCGet("level") <= MaxDepth
EmitOK == PrintT(ToJson([s |-> StateRec, l |-> last', t |-> StateRec']))

---------------------------------------------------------------------------
(* documented meaning *)
RECURSIVE DefFrom(_, _, _)
DefFrom(a, i, acc) ==
    IF i > Len(hist) THEN acc
    ELSE IF hist[i].a # a THEN DefFrom(a, i + 1, acc)
    ELSE DefFrom(a, i + 1, <<MAdd(acc[1], Outer(hist[i].x)), VAdd(acc[2], Scale(hist[i].x, hist[i].r))>>)
DefAB(a) == DefFrom(a, born[a] + 1, <<LamI, ZeroV>>)

\* (a warm-started arm holds a copy of its source's matrices plus its own later rows: asserted for the other arms)
Inv_C02_NormalEq == \A a \in RangeS(arms) : ~status[a].wm => (A[a] = DefAB(a)[1] /\ B[a] = DefAB(a)[2])
Inv_C02_Solves   == \A a \in RangeS(arms) : MV(A[a], Beta(a)) = B[a] /\ RLt(RZero, Det(A[a]))
Inv_C02_Unobserved ==
    \A a \in RangeS(arms) : (DefAB(a) = <<LamI, ZeroV>> /\ ~status[a].wm) =>
        /\ Beta(a) = ZeroV
        /\ \A x \in Ctx : ArmAtRaw(a, x).bonus2 = RDiv(DotR(RV(x), RV(x)), Lambda)
Inv_C08_Keys == DOMAIN A = RangeS(arms) /\ DOMAIN B = RangeS(arms) /\ DOMAIN status = RangeS(arms)
(* C13 for linear policies: only cold arms change, they receive an exact copy of a trained arm's model *)
Prop_C13_WarmStart ==
    [][last'.op = "warm_start" =>
         LET wm == last'.map IN
         /\ \A a \in RangeS(arms) \ DOMAIN wm : A'[a] = A[a] /\ B'[a] = B[a] /\ status'[a] = status[a]
         /\ \A c \in DOMAIN wm : /\ ~status[c].tr /\ ~status[c].wm /\ status[wm[c]].tr
                                  /\ A'[c] = A[wm[c]] /\ B'[c] = B[wm[c]]
                                  /\ \A w \in RangeS(TrainedArms) : RLeq(CosDist(c, wm[c]), CosDist(c, w))]_vars
Prop_C10_ReadOnly == [][last'.op \in {"predict", "predict_expectations"} => UNCHANGED modelVars]_vars
Prop_C07_FitIsFresh ==
    [][last'.op = "fit" =>
         \A a \in RangeS(arms) : A'[a] = AddRows(<<LamI, ZeroV>>, last'.batch, a, 1)[1]
                              /\ B'[a] = AddRows(<<LamI, ZeroV>>, last'.batch, a, 1)[2]]_vars
=============================================================================
