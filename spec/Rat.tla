------------------------------- MODULE Rat -------------------------------
(***************************************************************************)
(* Exact rational arithmetic for TLC.  A rational is a pair <<n, d>> with  *)
(* d > 0 and gcd(|n|, d) = 1.  Everything MABWiser computes from its       *)
(* training data that is rational (means, shares, ridge solutions, squared *)
(* distances, quantiles) is computed with these operators, so that TLC     *)
(* decides equalities exactly; the irrational steps (sqrt, log, exp) stay  *)
(* symbolic in "terms" and are evaluated by harness/terms.py.              *)
(***************************************************************************)
EXTENDS Integers, Sequences, FiniteSets

Abs(x) == IF x < 0 THEN -x ELSE x

RECURSIVE GCD(_, _)
GCD(a, b) == IF b = 0 THEN a ELSE GCD(b, a % b)

Norm(n, d) ==
    LET g == GCD(Abs(n), Abs(d))
        s == IF d < 0 THEN -1 ELSE 1
    IN  IF n = 0 THEN <<0, 1>> ELSE <<(s * n) \div g, (s * d) \div g>>

R(i)        == <<i, 1>>
RZero       == <<0, 1>>
ROne        == <<1, 1>>
IsRat(p)    == /\ p \in Int \X Int /\ p[2] > 0 /\ GCD(Abs(p[1]), p[2]) = 1
RAdd(p, q)  == Norm(p[1] * q[2] + q[1] * p[2], p[2] * q[2])
RSub(p, q)  == Norm(p[1] * q[2] - q[1] * p[2], p[2] * q[2])
RMul(p, q)  == Norm(p[1] * q[1], p[2] * q[2])
RDiv(p, q)  == Norm(p[1] * q[2], p[2] * q[1])          \* q # 0
RNeg(p)     == <<-p[1], p[2]>>
RLt(p, q)   == p[1] * q[2] < q[1] * p[2]
RLeq(p, q)  == p[1] * q[2] <= q[1] * p[2]
REq(p, q)   == p[1] * q[2] = q[1] * p[2]
RMax(p, q)  == IF RLt(p, q) THEN q ELSE p
RMin(p, q)  == IF RLt(q, p) THEN q ELSE p
RIsZero(p)  == p[1] = 0
RFrac(n, d) == Norm(n, d)

RECURSIVE RSumFrom(_, _)
RSumFrom(s, i) == IF i > Len(s) THEN RZero ELSE RAdd(s[i], RSumFrom(s, i + 1))
RSumSeq(s) == RSumFrom(s, 1)

RECURSIVE ISumFrom(_, _)
ISumFrom(s, i) == IF i > Len(s) THEN 0 ELSE s[i] + ISumFrom(s, i + 1)
ISumSeq(s) == ISumFrom(s, 1)

RECURSIVE RMaxSeq(_)
RMaxSeq(s) == IF Len(s) = 1 THEN s[1] ELSE RMax(s[1], RMaxSeq(Tail(s)))

RECURSIVE RMinSeq(_)
RMinSeq(s) == IF Len(s) = 1 THEN s[1] ELSE RMin(s[1], RMinSeq(Tail(s)))

(* insertion sort of a sequence of rationals, ascending *)
RECURSIVE RInsert(_, _)
RInsert(x, s) == IF s = <<>> THEN <<x>>
                 ELSE IF RLeq(x, Head(s)) THEN <<x>> \o s
                 ELSE <<Head(s)>> \o RInsert(x, Tail(s))
RECURSIVE RSort(_)
RSort(s) == IF s = <<>> THEN <<>> ELSE RInsert(Head(s), RSort(Tail(s)))

(* numpy.quantile(s, q), default linear interpolation; q a rational in [0,1] *)
RQuantile(s, q) ==
    LET srt  == RSort(s)
        n    == Len(s)
        pos  == RMul(R(n - 1), q)
        lo   == pos[1] \div pos[2]
        frac == RSub(pos, R(lo))
    IN  IF lo + 1 >= n THEN srt[n]
        ELSE RAdd(srt[lo + 1], RMul(frac, RSub(srt[lo + 2], srt[lo + 1])))
=============================================================================
