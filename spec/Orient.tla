------------------------------- MODULE Orient -------------------------------
(***************************************************************************)
(* C18: how a one-dimensional pandas Series passed as `contexts` is read.  *)
(* In fit / partial_fit a Series of the same length as the decisions is a  *)
(* column (one feature per observation); with a single decision it is one  *)
(* row of features.  In predict / predict_expectations it is a column when *)
(* the model was trained with one feature, otherwise one row.  Every valid *)
(* case is emitted; the harness passes the Series and the equivalent 2-D   *)
(* array to real bandits and compares.                                     *)
(***************************************************************************)
EXTENDS Integers, Sequences, TLC, Json

CONSTANTS MaxLen

Orient(isFit, nDecisions, numFeatures) ==
    IF isFit THEN (IF nDecisions > 1 THEN "column" ELSE "row")
    ELSE (IF numFeatures = 1 THEN "column" ELSE "row")

Shape(isFit, nDecisions, numFeatures, len) ==
    IF Orient(isFit, nDecisions, numFeatures) = "column" THEN <<len, 1>> ELSE <<1, len>>

(* a case is valid when the resulting matrix fits the call: rows = decisions in training, columns = features in queries *)
Valid(isFit, nDecisions, numFeatures, len) ==
    LET sh == Shape(isFit, nDecisions, numFeatures, len) IN
    IF isFit THEN sh[1] = nDecisions /\ sh[2] = numFeatures
    ELSE sh[2] = numFeatures

Cases == {c \in [isFit : BOOLEAN, n : 1..MaxLen, d : 1..MaxLen, len : 1..MaxLen] : Valid(c.isFit, c.n, c.d, c.len)}

VARIABLE done
Init == done = FALSE
Next == /\ ~done /\ done' = TRUE
        /\ \A c \in Cases : PrintT(ToJson([isFit |-> c.isFit, n |-> c.n, d |-> c.d, len |-> c.len,
                                            shape |-> Shape(c.isFit, c.n, c.d, c.len)]))
(* a Series is never ambiguous: when both readings fit the call they coincide *)
Inv_C18_Unambiguous ==
    \A isFit \in BOOLEAN, n \in 1..MaxLen, d \in 1..MaxLen, len \in 1..MaxLen :
        LET col == <<len, 1>>  row == <<1, len>>
            fits(sh) == IF isFit THEN sh[1] = n /\ sh[2] = d ELSE sh[2] = d
        IN  (fits(col) /\ fits(row)) => col = row
=============================================================================
