-------------------------------- MODULE Par --------------------------------
(***************************************************************************)
(* The parallel helpers of BaseMAB.                                        *)
(*                                                                         *)
(* _parallel_predict(rows):  DrawSeeds     one int32 seed per row from the *)
(*                                         bandit's main stream            *)
(*                           partition     contiguous chunks (any ordered  *)
(*                                         exact cover is explored, not    *)
(*                                         only the one the code picks)    *)
(*                           Row(w)        worker w handles its next row   *)
(*                                         with a generator made from that *)
(*                                         row's seed; workers interleave  *)
(*                                         freely (threads), run one after *)
(*                                         another (n_jobs = 1) or own a   *)
(*                                         COPY of the bandit (processes)  *)
(*                           Reduce        concatenate in chunk order      *)
(* Every random draw is symbolic: <<stream, position>>.  The property is   *)
(* that the stream and position each row draws from, the order of the      *)
(* results and the final position of the main stream are the same for      *)
(* every partition, backend and schedule.                                  *)
(*                                                                         *)
(* _parallel_fit(arms): one task per arm in any completion order with      *)
(* declared write sets; the final model must not depend on the order.      *)
(*                                                                         *)
(* CodePartition is the arithmetic of _partition_contexts/_effective_jobs. *)
(***************************************************************************)
EXTENDS Integers, Sequences, FiniteSets, TLC, Json

CONSTANTS
    MaxRows,     \* query batches of 1..MaxRows rows
    Backends,    \* subset of {"seq", "threads", "procs"}
    Arms,        \* arms of the fit-task model
    Dev

Max2(a, b) == IF a > b THEN a ELSE b
Min2(a, b) == IF a < b THEN a ELSE b

---------------------------------------------------------------------------
(* _effective_jobs and _partition_contexts *)
Eff(size, nj, cpu) == Min2(IF nj < 0 THEN Max2(cpu + 1 + nj, 1) ELSE nj, size)
Sizes(n, k) == [i \in 1..k |-> (n \div k) + (IF i <= n % k THEN 1 ELSE 0)]
RECURSIVE SumTo(_, _)
SumTo(s, i) == IF i = 0 THEN 0 ELSE s[i] + SumTo(s, i - 1)
Starts(n, k) == [i \in 1..(k + 1) |-> SumTo(Sizes(n, k), i - 1)]
CodePartition(n, nj, cpu) == LET k == Eff(n, nj, cpu) IN [k |-> k, sizes |-> Sizes(n, k), starts |-> Starts(n, k)]

(* ordered exact cover: min(effective jobs, n) non-empty contiguous chunks, balanced *)
IsExactCover(n, p) ==
    /\ p.k >= 1 /\ p.k <= n
    /\ \A i \in 1..p.k : p.sizes[i] >= 1
    /\ SumTo(p.sizes, p.k) = n
    /\ p.starts[1] = 0 /\ p.starts[p.k + 1] = n
    /\ \A i \in 1..p.k : p.starts[i + 1] = p.starts[i] + p.sizes[i]
    /\ \A i, j \in 1..p.k : i < j => p.sizes[i] >= p.sizes[j] /\ p.sizes[i] - p.sizes[j] <= 1

JobValues == (1..66) \cup {-j : j \in 1..66}
Inv_C05_ExactCover ==
    \A n \in 1..64, nj \in JobValues, cpu \in {1, 2, 16} :
        LET p == CodePartition(n, nj, cpu) IN
        /\ IsExactCover(n, p)
        /\ p.k = Min2(n, IF nj > 0 THEN nj ELSE Max2(cpu + 1 + nj, 1))

---------------------------------------------------------------------------
(* all compositions of m: sequences of positive chunk lengths summing to m *)
RECURSIVE Compositions(_)
Compositions(m) == IF m = 0 THEN {<<>>}
                   ELSE UNION {{<<k>> \o c : c \in Compositions(m - k)} : k \in 1..m}
StartOf(part, w) == SumTo(part, w - 1)

VARIABLES
    m, backend, part,   \* the call: rows, backend, chosen partition
    phase,              \* "seeds" | "run" | "done"
    mainPos,            \* position of the bandit's main stream
    seedOf,             \* [row -> symbolic seed]
    nxt,                \* [worker -> rows of its chunk already handled]
    wpos,               \* [worker -> position of the worker's private copy of the main stream] (processes)
    out,                \* [row -> the stream position its result was drawn from]
    order,              \* row order of the reduced result
    sched,              \* history: sequence of worker ids, one per Row step (observation only)
    fitDone, model      \* fit-task model: set of finished arm tasks, [arm -> value written]

vars == <<m, backend, part, phase, mainPos, seedOf, nxt, wpos, out, order, sched, fitDone, model>>

Workers == 1..Len(part)

Init ==
    /\ m \in 1..MaxRows
    /\ backend \in Backends
    /\ part \in Compositions(m)
    /\ (backend = "seq") => TRUE
    /\ phase = "seeds" /\ mainPos = 0
    /\ seedOf = [i \in 1..m |-> <<"none">>]
    /\ nxt = [w \in 1..Len(part) |-> 0]
    /\ wpos = [w \in 1..Len(part) |-> 0]
    /\ out = [i \in 1..m |-> <<"none">>]
    /\ order = <<>> /\ sched = <<>>
    /\ fitDone = {} /\ model = [a \in Arms |-> "old"]

(* seeds are drawn once, for all rows, before the rows are partitioned *)
DrawSeeds ==
    /\ phase = "seeds"
    /\ LET n == IF "SeedsPerChunkTimesFirst" \in Dev THEN Len(part) * part[1] ELSE m IN
       /\ seedOf' = [i \in 1..m |-> <<"seed", mainPos + i - 1>>]
       /\ mainPos' = mainPos + n
    /\ wpos' = [w \in 1..Len(part) |-> mainPos']      \* a process worker starts from a copy of the bandit
    /\ phase' = "run"
    /\ UNCHANGED <<m, backend, part, nxt, out, order, sched, fitDone, model>>

CanRun(w) ==
    /\ nxt[w] < part[w]
    /\ (backend = "seq") => \A v \in 1..(w - 1) : nxt[v] = part[v]      \* chunks one after another

Row(w) ==
    /\ phase = "run" /\ w \in Workers /\ CanRun(w)
    /\ LET i == StartOf(part, w) + nxt[w] + 1 IN
       IF "TreeLeafUsesMainRng" \in Dev
       THEN IF backend = "procs"
            THEN /\ out' = [out EXCEPT ![i] = <<"main", wpos[w]>>]
                 /\ wpos' = [wpos EXCEPT ![w] = @ + 1] /\ UNCHANGED mainPos
            ELSE /\ out' = [out EXCEPT ![i] = <<"main", mainPos>>]
                 /\ mainPos' = mainPos + 1 /\ UNCHANGED wpos
       ELSE IF "ReseedAfterUse" \in Dev
            THEN /\ out' = [out EXCEPT ![i] = IF nxt[w] = 0 THEN <<"stale", 0>> ELSE <<"row", seedOf[i - 1], 0>>]
                 /\ UNCHANGED <<mainPos, wpos>>
            ELSE /\ out' = [out EXCEPT ![i] = <<"row", seedOf[i], 0>>]
                 /\ UNCHANGED <<mainPos, wpos>>
    /\ nxt' = [nxt EXCEPT ![w] = @ + 1]
    /\ sched' = Append(sched, w)
    /\ UNCHANGED <<m, backend, part, phase, seedOf, order, fitDone, model>>

RECURSIVE RowsOfChunks(_, _)
RowsOfChunks(ws, p) == IF ws = <<>> THEN <<>>
                       ELSE [j \in 1..p[Head(ws)] |-> StartOf(p, Head(ws)) + j] \o RowsOfChunks(Tail(ws), p)

RECURSIVE FirstOcc(_, _)
FirstOcc(s, seen) == IF s = <<>> THEN <<>>
                     ELSE IF Head(s) \in seen THEN FirstOcc(Tail(s), seen)
                     ELSE <<Head(s)>> \o FirstOcc(Tail(s), seen \cup {Head(s)})

Reduce ==
    /\ phase = "run" /\ \A w \in Workers : nxt[w] = part[w]
    /\ order' = (IF "ReduceInCompletionOrder" \in Dev
                 THEN RowsOfChunks(FirstOcc(sched, {}), part)
                 ELSE RowsOfChunks([w \in 1..Len(part) |-> w], part))
    /\ phase' = "done"
    /\ UNCHANGED <<m, backend, part, mainPos, seedOf, nxt, wpos, out, sched, fitDone, model>>

(* _parallel_fit: one task per arm, any order; a task writes only its own arm's entry *)
FitTask(a) ==
    /\ phase = "done" /\ a \in Arms \ fitDone
    /\ model' = (IF "FitTaskReadsShared" \in Dev
                 THEN [model EXCEPT ![a] = <<"new", Cardinality(fitDone)>>]     \* value depends on what finished before
                 ELSE [model EXCEPT ![a] = <<"new", 0>>])
    /\ fitDone' = fitDone \cup {a}
    /\ UNCHANGED <<m, backend, part, phase, mainPos, seedOf, nxt, wpos, out, order, sched>>

Next == DrawSeeds \/ (\E w \in 1..MaxRows : Row(w)) \/ Reduce \/ (\E a \in Arms : FitTask(a))
Spec == Init /\ [][Next]_vars

---------------------------------------------------------------------------
RefOut(mm) == [i \in 1..mm |-> <<"row", <<"seed", i - 1>>, 0>>]

(* each row's result is a function of (model, row, its own seed) only *)
Inv_C05_RowLocal == \A i \in 1..m : out[i] # <<"none">> => out[i] = <<"row", seedOf[i], 0>>
(* the reduced result, the streams used and the final main-stream position do not depend on partition/schedule *)
Inv_C05_Partition == (phase = "done") => /\ out = RefOut(m) /\ mainPos = m
                                         /\ order = [i \in 1..m |-> i]
(* the final model does not depend on the completion order of the per-arm tasks *)
Inv_C05_FitOrder == (fitDone = Arms) => model = [a \in Arms |-> <<"new", 0>>]

(* emitted for the binding: every partition and every order in which the chunks were started *)
View == <<m, backend, part, phase, mainPos, seedOf, nxt, wpos, out, order, fitDone, model, FirstOcc(sched, {})>>
EmitDone == (phase = "done" /\ fitDone = {}) =>
              PrintT(ToJson([m |-> m, backend |-> backend, part |-> part, started |-> FirstOcc(sched, {})]))
=============================================================================
