----------------------------- MODULE TraceLife -----------------------------
(***************************************************************************)
(* Validation of recorded public calls on real MAB objects against the     *)
(* policy-agnostic life cycle (Life.tla).  The executions come from the    *)
(* repository's own test-suite, run with the guarded hooks on: every       *)
(* outermost public call is one event with the abstract state before and   *)
(* after it (arm list, fitted flag, number of stored rows where the policy *)
(* stores its history) and a summary of the result.  Whatever the test     *)
(* itself asserts, every event must be a step of Life: training presents   *)
(* exactly the new rows, add_arm / remove_arm change exactly the arm list, *)
(* queries and rejected calls change nothing, and results range over the   *)
(* current arms, one per context row.                                      *)
(***************************************************************************)
EXTENDS Life, IOUtils

Traces == JsonDeserialize(IOEnv.TRACE_FILE)
VARIABLES tid, l
Check(name, cond) == IF cond THEN TRUE ELSE PrintT(<<"FAIL", tid, l, name>>) /\ FALSE

Ev == Traces[tid].events[l]

TInit == /\ tid \in 1..Len(Traces) /\ l = 1
         /\ arms = Traces[tid].arms /\ fitted = Traces[tid].fitted
         /\ rows = [i \in 1..Traces[tid].nrows |-> i] /\ warm = {} /\ epoch = -1 /\ last = [op |-> "init"]

PostOK(e) ==
    /\ Check("post.arms", arms' = e.post.arms)
    /\ Check("post.fitted", fitted' = e.post.fitted)
    /\ Check("post.rows", e.post.nrows >= 0 => Len(rows') = e.post.nrows)

ResultOK(e) ==
    LET want == IF e.m <= 1 THEN 1 ELSE e.m IN
    /\ Check("result.count", e.m < 0 \/ e.res.n = want)
    /\ Check("result.shape", e.m < 0 \/ e.res.list = (e.m > 1))
    /\ (e.op = "predict") => Check("result.members", \A i \in DOMAIN e.res.arms : e.res.arms[i] \in RangeS(arms))
    /\ (e.op = "predict_expectations") => Check("result.keys", \A i \in DOMAIN e.res.keys : e.res.keys[i] = arms)

TNext ==
    /\ l <= Len(Traces[tid].events) /\ l' = l + 1 /\ UNCHANGED tid
    /\ LET e == Ev IN
       CASE e.out # "ok" -> Reject("any") /\ PostOK(e)
         [] e.op = "fit" -> Fit(e.o, e.k) /\ PostOK(e)
         [] e.op = "partial_fit" -> PartialFit(e.k) /\ PostOK(e)
         [] e.op = "add_arm" -> AddArm(e.arm) /\ PostOK(e)
         [] e.op = "remove_arm" -> RemoveArm(e.arm) /\ PostOK(e)
         [] e.op = "warm_start" -> WarmStart("q") /\ PostOK(e)
         [] e.op \in {"predict", "predict_expectations"} -> Query(e.op, e.m) /\ PostOK(e) /\ ResultOK(e)

Done == (l = Len(Traces[tid].events) + 1) => PrintT(<<"DONE", tid>>)
TView == <<arms, fitted, rows, warm, epoch, tid, l>>
=============================================================================
