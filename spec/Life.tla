-------------------------------- MODULE Life --------------------------------
(***************************************************************************)
(* Policy-agnostic life cycle of a MABWiser bandit.                        *)
(*                                                                         *)
(* The abstract state is what EVERY learning / neighbourhood policy        *)
(* combination must agree on: the arm list, whether the bandit is fitted,  *)
(* which rows of a fixed data set have been presented since the most       *)
(* recent fit (in order), and which arms are warm.  Two call sequences     *)
(* that reach the same abstract state must be indistinguishable on the     *)
(* real object - that is the content of C06 (chunkings), C07 (refit =      *)
(* fresh), C10 (queries are self-loops), C17 (rejected calls are           *)
(* self-loops) and C19 (a clone is the same state); the replay harness     *)
(* compares the real objects with deep snapshots and continuation outputs. *)
(* The numeric meaning of the state is specified per policy family in      *)
(* Mab.tla, Lin.tla and Nbhd.tla.                                          *)
(***************************************************************************)
EXTENDS Integers, Sequences, FiniteSets, TLC, Json

CONSTANTS
    Labels, InitArms,
    NRows,        \* size of the data set; rows are 1..NRows (the binding maps them to observations)
    Offsets,      \* a fit may start at any of these offsets into the data set
    WideOffsets,  \* offsets (>= 100) into a second data set with one more feature column (refit with another width)
    MaxChunk, MaxHist, MaxDepth,
    MinFit,       \* fewest rows a fit accepts (k of KNearest, n_clusters of Clusters)
    MinArms,      \* remove_arm is explored while more than this many arms remain
    Ops, RejectKinds, QueryRows, Quantiles,
    EpochOnAdd,   \* TRUE when add_arm installs a (new) Thompson binarizer: it converts the rows presented AFTER it only
    Dev

VARIABLES arms, fitted, rows, warm, last,
          epoch     \* -1: no binarizer has been installed by add_arm; else how many of `rows` were presented before the
                    \* latest such add_arm (those rows keep the conversion that was in force when they were presented)
vars == <<arms, fitted, rows, warm, epoch, last>>
modelVars == <<arms, fitted, rows, warm, epoch>>

RangeS(s) == {s[i] : i \in DOMAIN s}
Slice(o, k) == [i \in 1..k |-> o + i]

Init == /\ arms = InitArms /\ fitted = FALSE /\ rows = <<>> /\ warm = {} /\ epoch = -1 /\ last = [op |-> "init"]

DoFit(o, k) ==
    /\ fitted' = TRUE /\ arms' = arms
    /\ rows' = (IF "FitKeepsRows" \in Dev THEN rows \o Slice(o, k) ELSE Slice(o, k))
    /\ warm' = {}
    /\ epoch' = (IF epoch = -1 THEN -1 ELSE 0)      \* a fit converts all its rows with the binarizer in force

Fit(o, k) ==
    /\ "fit" \in Ops /\ o \in Offsets \cup WideOffsets /\ k \in MinFit..MaxChunk
    /\ (o \in WideOffsets \/ o + k <= NRows)
    /\ DoFit(o, k)
    /\ last' = [op |-> "fit", rows |-> Slice(o, k)]

(* partial_fit continues with the rows that follow the last one presented *)
NextRow == IF rows = <<>> THEN 0 ELSE rows[Len(rows)]
PartialFit(k) ==
    /\ "partial_fit" \in Ops /\ k \in 1..MaxChunk
    /\ IF ~fitted
       THEN /\ k <= NRows /\ k >= MinFit /\ DoFit(0, k) /\ last' = [op |-> "partial_fit", rows |-> Slice(0, k)]
       ELSE /\ (IF NextRow >= 100 THEN NextRow + k <= 100 + NRows ELSE NextRow + k <= NRows) /\ Len(rows) + k <= MaxHist
            /\ rows' = rows \o Slice(NextRow, k)
            /\ UNCHANGED <<arms, fitted, warm, epoch>>
            /\ last' = [op |-> "partial_fit", rows |-> Slice(NextRow, k)]

AddArm(a) ==
    /\ "add_arm" \in Ops /\ a \in Labels \ RangeS(arms)
    /\ arms' = Append(arms, a) /\ UNCHANGED <<fitted, rows, warm>>
    /\ epoch' = (IF EpochOnAdd THEN Len(rows) ELSE epoch)
    /\ last' = [op |-> "add_arm", arm |-> a]

RemoveArm(a) ==
    /\ "remove_arm" \in Ops /\ a \in RangeS(arms) /\ Len(arms) > MinArms
    /\ arms' = SelectSeq(arms, LAMBDA x : x # a) /\ UNCHANGED <<fitted, rows, warm, epoch>>
    /\ last' = [op |-> "remove_arm", arm |-> a]

(* which arms become warm depends on the policy's features: the binding reports it, the abstract state only
   records that a warm start happened with quantile q (two warm starts with the same q are one state) *)
WarmStart(q) ==
    /\ "warm_start" \in Ops /\ q \in Quantiles
    /\ warm' = warm \cup {q}
    /\ UNCHANGED <<arms, fitted, rows, epoch>>
    /\ last' = [op |-> "warm_start", q |-> q]

Query(op, mm) ==
    /\ op \in Ops /\ fitted /\ mm \in QueryRows
    /\ last' = [op |-> op, m |-> mm]
    /\ UNCHANGED modelVars

Reject(k) ==
    /\ "reject" \in Ops /\ k \in RejectKinds
    /\ (k \in {"predict_unfitted", "predict_exp_unfitted", "first_pfit_too_few_rows"} => ~fitted)
    /\ (k \in {"pfit_wrong_columns", "pfit_row_length"} => fitted)
    /\ last' = [op |-> "reject", kind |-> k]
    /\ UNCHANGED modelVars

Next ==
    \/ \E o \in Offsets \cup WideOffsets, k \in 1..MaxChunk : Fit(o, k)
    \/ \E k \in 1..MaxChunk : PartialFit(k)
    \/ \E a \in Labels : AddArm(a) \/ RemoveArm(a)
    \/ \E q \in Quantiles : WarmStart(q)
    \/ \E mm \in QueryRows : Query("predict", mm) \/ Query("predict_expectations", mm)
    \/ \E k \in RejectKinds : Reject(k)

Spec == Init /\ [][Next]_vars

StateRec == [arms |-> arms, fitted |-> fitted, rows |-> rows, warm |-> warm, epoch |-> epoch]
View  == <<arms, fitted, rows, warm, epoch>>
Bound == Len(rows) <= MaxHist /\ TLCGet("level") <= MaxDepth
EmitOK == PrintT(ToJson([s |-> StateRec, l |-> last', t |-> StateRec']))

(* C06: the rows presented since the last fit are a contiguous run of the data set, whatever the chunking *)
Inv_C06_Contiguous == \A i \in 1..(Len(rows) - 1) : rows[i + 1] = rows[i] + 1
Inv_C14_Epoch == epoch \in -1..Len(rows) /\ (~EpochOnAdd => epoch = -1)
Inv_C08_Arms == \A i, j \in DOMAIN arms : i # j => arms[i] # arms[j]
Prop_C07_FitIsFresh == [][last'.op = "fit" => rows' = last'.rows /\ warm' = {}]_vars
Prop_C10_ReadOnly == [][last'.op \in {"predict", "predict_expectations"} => UNCHANGED modelVars]_vars
Prop_C17_RejectUnchanged == [][last'.op = "reject" => UNCHANGED modelVars]_vars
=============================================================================
