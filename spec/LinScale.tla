------------------------------ MODULE LinScale ------------------------------
(***************************************************************************)
(* scale=True for the linear policies over SEVERAL training calls          *)
(* (Lin.tla covers a single fit through a rational identity).              *)
(*                                                                         *)
(* Per arm the code keeps a StandardScaler that is updated by every fit /  *)
(* partial_fit batch holding rows of the arm (sklearn's incremental mean   *)
(* and variance, the pairwise update of Chan, Golub, LeVeque), standardises*)
(* the rows of THAT batch with the moments reached after the update        *)
(* (a zero variance scales by 1: fix_small_variance), and adds Z'Z and Z'y *)
(* to A and Xty.  A query is standardised with the current moments.        *)
(*                                                                         *)
(* Impl-shaped layer: n, mean, var follow the incremental formula over     *)
(* exact rationals; every training call of an arm leaves one segment       *)
(*   [s2 (variance used for scaling), C = sum (x-mean)(x-mean)',           *)
(*    c = sum (x-mean) y]                                                  *)
(* Documented meaning: the moments are those of ALL rows of the arm since  *)
(* the most recent fit (Inv_C02_RunningMoments), one segment per training  *)
(* call that held rows of the arm, A = lambda I + sum_k D_k^-1 C_k D_k^-1, *)
(* Xty = sum_k D_k^-1 c_k with D_k = diag(sqrt(s2_k)).  The square roots   *)
(* are irrational: the harness evaluates them from the exact segments.     *)
(***************************************************************************)
EXTENDS Integers, Sequences, FiniteSets, TLC, Json, Rat

CONSTANTS
    Arms,       \* sequence of labels (fixed arm list)
    D,          \* number of features
    BatchSet,   \* set of batches: sequences of rows [a, r, x] (x a sequence of D integers)
    QuerySets,  \* set of sequences of context points
    MaxCalls,
    Dev

VARIABLES fitted, hist, n, mean, var, segs, last
vars == <<fitted, hist, n, mean, var, segs, last>>

RangeS(s) == {s[i] : i \in DOMAIN s}
ArmSet == RangeS(Arms)
Idx == 1..D
ZeroV == [i \in Idx |-> RZero]
Sq(p) == RMul(p, p)
OwnOf(b, a) == SelectSeq(b, LAMBDA row : row.a = a)

(* sklearn.utils.extmath._incremental_mean_and_var over rationals *)
Upd(n0, mean0, var0, X) ==
    LET m       == Len(X)
        N       == n0 + m
        newsum  == [i \in Idx |-> RSumSeq([k \in 1..m |-> R(X[k].x[i])])]
        lastsum == [i \in Idx |-> RMul(mean0[i], R(n0))]
        T       == [i \in Idx |-> RDiv(newsum[i], R(m))]
        newunv  == [i \in Idx |-> RSumSeq([k \in 1..m |-> Sq(RSub(R(X[k].x[i]), T[i]))])]
        lastunv == [i \in Idx |-> RMul(var0[i], R(n0))]
        ratio   == RFrac(n0, m)                                  \* last_over_new_count
        cross   == [i \in Idx |-> IF n0 = 0 \/ "ChanNoCross" \in Dev THEN RZero
                                  ELSE RMul(RDiv(ratio, R(N)), Sq(RSub(RDiv(lastsum[i], ratio), newsum[i])))]
    IN  [n    |-> N,
         mean |-> [i \in Idx |-> RDiv(RAdd(lastsum[i], newsum[i]), R(N))],
         var  |-> [i \in Idx |-> RDiv(RAdd(RAdd(lastunv[i], newunv[i]), cross[i]), R(N))]]

Segment(X, mu, v) ==
    LET m      == Len(X)
        cen(k) == [i \in Idx |-> RSub(R(X[k].x[i]), mu[i])]
    IN  [s2 |-> [i \in Idx |-> IF RIsZero(v[i]) \/ "ScaleByStaleMoments" \in Dev THEN ROne ELSE v[i]],
         C  |-> [i \in Idx |-> [j \in Idx |-> RSumSeq([k \in 1..m |-> RMul(cen(k)[i], cen(k)[j])])]],
         c  |-> [i \in Idx |-> RSumSeq([k \in 1..m |-> RMul(cen(k)[i], R(X[k].r))])]]

Init ==
    /\ fitted = FALSE /\ hist = <<>>
    /\ n = [a \in ArmSet |-> 0] /\ mean = [a \in ArmSet |-> ZeroV] /\ var = [a \in ArmSet |-> ZeroV]
    /\ segs = [a \in ArmSet |-> <<>>]
    /\ last = [op |-> "init"]

Train(b, reset) ==
    LET n0(a) == IF reset THEN 0 ELSE n[a]
        m0(a) == IF reset THEN ZeroV ELSE mean[a]
        v0(a) == IF reset THEN ZeroV ELSE var[a]
        s0(a) == IF reset THEN <<>> ELSE segs[a]
        u(a)  == Upd(n0(a), m0(a), v0(a), OwnOf(b, a))
        has(a) == OwnOf(b, a) # <<>>
    IN  /\ n'    = [a \in ArmSet |-> IF has(a) THEN u(a).n ELSE n0(a)]
        /\ mean' = [a \in ArmSet |-> IF has(a) THEN u(a).mean ELSE m0(a)]
        /\ var'  = [a \in ArmSet |-> IF has(a) THEN u(a).var ELSE v0(a)]
        /\ segs' = [a \in ArmSet |-> IF has(a) THEN Append(s0(a), Segment(OwnOf(b, a), u(a).mean, u(a).var)) ELSE s0(a)]
        /\ hist' = (IF reset THEN <<b>> ELSE Append(hist, b))
        /\ fitted' = TRUE

Fit(b)        == Train(b, TRUE) /\ last' = [op |-> "fit", batch |-> b]
PartialFit(b) == Train(b, ~fitted) /\ last' = [op |-> "partial_fit", batch |-> b]
Query(X)      == /\ fitted /\ last' = [op |-> "predict_expectations", X |-> X]
                 /\ UNCHANGED <<fitted, hist, n, mean, var, segs>>

Next == \/ \E b \in BatchSet : Fit(b) \/ PartialFit(b)
        \/ \E X \in QuerySets : Query(X)
Spec == Init /\ [][Next]_vars

StateRec == [fitted |-> fitted, hist |-> hist, n |-> n, mean |-> mean, var |-> var, segs |-> segs]
View  == <<fitted, hist, n, mean, var, segs>>
Bound == TLCGet("level") <= MaxCalls
EmitOK == PrintT(ToJson([s |-> StateRec, l |-> last', t |-> StateRec']))

---------------------------------------------------------------------------
(* documented meaning: the moments of all rows of the arm since the most recent fit *)
RECURSIVE Flat(_, _)
Flat(h, i) == IF i > Len(h) THEN <<>> ELSE h[i] \o Flat(h, i + 1)
AllOwn(a) == OwnOf(Flat(hist, 1), a)
DirectMean(a) == LET X == AllOwn(a) IN [i \in Idx |-> RDiv(RSumSeq([k \in 1..Len(X) |-> R(X[k].x[i])]), R(Len(X)))]
DirectVar(a)  == LET X == AllOwn(a)  mu == DirectMean(a)
                 IN [i \in Idx |-> RDiv(RSumSeq([k \in 1..Len(X) |-> Sq(RSub(R(X[k].x[i]), mu[i]))]), R(Len(X)))]
CallsWith(a)  == Cardinality({k \in DOMAIN hist : OwnOf(hist[k], a) # <<>>})

Inv_C02_RunningMoments ==
    \A a \in ArmSet : /\ n[a] = Len(AllOwn(a))
                      /\ n[a] > 0 => (mean[a] = DirectMean(a) /\ var[a] = DirectVar(a))
Inv_C02_Segments ==
    \A a \in ArmSet : /\ Len(segs[a]) = CallsWith(a)
                      /\ \A k \in DOMAIN segs[a] : \A i \in Idx :
                            /\ RLt(RZero, segs[a][k].s2[i]) /\ RLeq(RZero, segs[a][k].C[i][i])
                            /\ \A j \in Idx : segs[a][k].C[i][j] = segs[a][k].C[j][i]
(* the last segment is scaled with the CURRENT moments (what a query is scaled with) *)
Inv_C02_LastSegmentCurrent ==
    \A a \in ArmSet : segs[a] # <<>> =>
        \A i \in Idx : segs[a][Len(segs[a])].s2[i] = (IF RIsZero(var[a][i]) THEN ROne ELSE var[a][i])
Prop_C07_FitIsFresh ==
    [][last'.op = "fit" => \A a \in ArmSet : /\ n'[a] = Len(OwnOf(last'.batch, a))
                                             /\ Len(segs'[a]) = (IF OwnOf(last'.batch, a) = <<>> THEN 0 ELSE 1)]_vars
Prop_C10_ReadOnly == [][last'.op = "predict_expectations" => UNCHANGED <<fitted, hist, n, mean, var, segs>>]_vars
=============================================================================
