----------------------------- MODULE TraceNbhd -----------------------------
(***************************************************************************)
(* Trace validation for Nbhd.tla (leg C, code -> spec).                    *)
(*                                                                         *)
(* The trace file (environment variable TRACE_FILE) is a JSON list of      *)
(* recorded executions of real neighbourhood bandits.  Every event carries *)
(* the call, its arguments in specification units, the geometry the real   *)
(* object assigned to the rows involved (LSH signatures computed from      *)
(* table_to_plane, k-means cells, tree leaves) and the projection of the   *)
(* object after the call.  An event is accepted when the specification     *)
(* action with the logged arguments is enabled and produces the logged     *)
(* projection and every invariant holds in the new state; the first        *)
(* failing clause is printed as <<"FAIL", tid, l, clause>>.  For queries   *)
(* the set of results the documentation allows is printed as JSON; the     *)
(* harness evaluates the exact terms and compares them with what the real  *)
(* object returned.                                                        *)
(***************************************************************************)
EXTENDS Nbhd, IOUtils

Traces == JsonDeserialize(IOEnv.TRACE_FILE)

VARIABLES tid, l
tvars == <<vars, tid, l>>

Check(name, cond) == IF cond THEN TRUE ELSE PrintT(<<"FAIL", tid, l, name>>) /\ FALSE

Ev == Traces[tid].events[l]

TInit == /\ tid \in 1..Len(Traces) /\ l = 1
         /\ InitWith(Traces[tid].arms, Traces[tid].bin)

TablesAsLogged(tb) == [k \in 1..NTables |-> [h \in 1..NSig |-> tb[k][h - 1]]]
LeavesAsLogged(lr) == {<<x, lr[x]>> : x \in DOMAIN lr}

PostOK(e) ==
    /\ Check("post.rows", Len(hist') = e.post.n)
    /\ Check("post.arms", arms' = e.post.arms)
    /\ ("stored" \in DOMAIN e.post) =>
          Check("post.stored", [i \in DOMAIN hist' |-> <<hist'[i].a, hist'[i].c, hist'[i].x>>] = e.post.stored)
    /\ (NP = "lsh") => Check("post.tables", TablesAsLogged(tables') = e.post.tables)
    /\ (NP = "tree") => Check("post.leaves",
            \A a \in RangeS(arms') : LeavesAsLogged(leafRew'[a]) = {e.post.leaves[a][j] : j \in DOMAIN e.post.leaves[a]})
    /\ (NP = "tree") => Check("post.built", \A a \in RangeS(arms') : built'[a] = e.post.built[a])

(* the geometry must be a function of the context while the hyperplanes / the clustering / a tree are unchanged *)
GeoFunctional ==
    CASE NP \in {"lsh", "clusters"} -> \A i, j \in DOMAIN hist : hist[i].x = hist[j].x => hist[i].g = hist[j].g
      [] NP = "tree" -> \A i, j \in DOMAIN hist :
                           (hist[i].x = hist[j].x /\ hist[i].a = hist[j].a /\ hist[i].a \in RangeS(arms)
                            /\ i > since[hist[i].a] /\ j > since[hist[i].a]) => hist[i].g = hist[j].g
      [] OTHER -> TRUE

(* the invariants of Nbhd.tla on the CURRENT state, i.e. the state the previous event produced (position l - 1);   *)
(* written without primes: TLC evaluates primed operator applications inside an action without caching               *)
CheckState(name, cond) == IF cond THEN TRUE ELSE PrintT(<<"FAIL", tid, l - 1, name>>) /\ FALSE
AfterTraining == l > 1 /\ Traces[tid].events[l - 1].op \in {"fit", "partial_fit"}
StateOK ==
    AfterTraining =>
        /\ CheckState("geometry.functional", GeoFunctional)
        /\ CheckState("Inv_C11_Tables", Inv_C11_Tables)
        /\ CheckState("Inv_C11_Self", Inv_C11_Self)
        /\ CheckState("Inv_C12_Leaves", Inv_C12_Leaves)
        /\ CheckState("Inv_C08_Keys", Inv_C08_Keys)

QueryGeoOK(e) ==      \* the query's geometry agrees with stored rows at the same context
    CASE NP \in {"lsh", "clusters"} -> \A i \in DOMAIN hist : hist[i].x = e.q => hist[i].g = e.qg
      [] OTHER -> TRUE

TNext ==
    /\ l <= Len(Traces[tid].events)
    /\ l' = l + 1 /\ UNCHANGED tid
    /\ StateOK
    /\ LET e == Ev IN
       CASE e.op = "fit" -> Fit(e.rows) /\ PostOK(e)
         [] e.op = "partial_fit" ->
               /\ Check("geometry.cells_cover_history",
                        (NP = "clusters" /\ fitted) => Len(e.allg) = Len(hist) + Len(e.rows))    \* k-means refit on every stored row
               /\ PartialFit(e.rows, e.allg) /\ PostOK(e)
         [] e.op = "add_arm" -> AddArm(e.arm, e.bin) /\ PostOK(e)
         [] e.op = "remove_arm" -> RemoveArm(e.arm) /\ PostOK(e)
         [] e.op = "query" ->
               /\ Check("query.geometry", QueryGeoOK(e))
               /\ Query("predict_expectations", e.q, e.qg)
               /\ PrintT(ToJson([tid |-> tid, l |-> l, allowed |-> Allowed(e.q, e.qg)]))

TSpec == TInit /\ [][TNext]_tvars

Done == (l = Len(Traces[tid].events) + 1) => (IF StateOK THEN PrintT(<<"DONE", tid>>) ELSE TRUE)
TView == <<View, tid, l>>
=============================================================================
