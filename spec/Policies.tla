------------------------------ MODULE Policies ------------------------------
(***************************************************************************)
(* Pure operators of the context-free learning policies, shared by the     *)
(* life-cycle specification (Mab.tla) and the neighbourhood specification   *)
(* (Nbhd.tla): how the code accumulates per-arm statistics (AccAdd), how it *)
(* refreshes stored expectations after training (IncExp), and the state a   *)
(* freshly constructed policy reaches by one fit (FreshFit).               *)
(***************************************************************************)
EXTENDS Integers, Sequences, FiniteSets, TLC, Rat

CONSTANTS
    LP,          \* "eg" | "ucb1" | "softmax" | "pop" | "ts" | "random"
    Thr,         \* [Labels -> Int] thresholds of binarizer "thr"
    Dev          \* deviations switched on

---------------------------------------------------------------------------
(* helpers *)
RangeS(s)      == {s[i] : i \in DOMAIN s}
IsTS           == LP = "ts"
ZeroAcc        == IF IsTS THEN [s |-> 1, f |-> 1] ELSE [s |-> 0, n |-> 0]
Restrict(f, S) == [x \in S |-> f[x]]
Extend(f, a, v) == [x \in DOMAIN f \cup {a} |-> IF x = a THEN v ELSE f[x]]

Binz(b, a, r) == CASE b = "none" -> r
                   [] b = "thr"  -> IF r >= Thr[a] THEN 1 ELSE 0
                   [] b = "flip" -> IF r = 0 THEN 1 ELSE 0
                   [] b = "ge2"  -> IF r >= 2 THEN 1 ELSE 0

(* converted rewards of arm a in batch cb, in row order *)
OfArm(cb, a) == LET own == SelectSeq(cb, LAMBDA h : h.a = a) IN [j \in 1..Len(own) |-> own[j].c]
BatchLabels(cb) == {cb[i].a : i \in DOMAIN cb}

AccAdd(ac, rs) == IF IsTS THEN [s |-> ac.s + ISumSeq(rs), f |-> ac.f + Len(rs) - ISumSeq(rs)]
                  ELSE [s |-> ac.s + ISumSeq(rs), n |-> ac.n + Len(rs)]

MeanOf(ac) == IF IsTS THEN RZero ELSE IF ac.n = 0 THEN RZero ELSE RFrac(ac.s, ac.n)

ArmSeqMeans(as, ac) == [i \in DOMAIN as |-> MeanOf(ac[as[i]])]

ColdStatus == [tr |-> FALSE, wm |-> FALSE, by |-> "none"]

---------------------------------------------------------------------------
(* stored expectations: the code's incremental refresh *)

ZeroExp == CASE LP = "ucb1"    -> [m |-> RZero, N |-> 0, n |-> 0]
             [] LP = "softmax" -> [m |-> RZero, ms |-> <<>>]
             [] OTHER          -> RZero

SoftmaxAll(as, ac) == [a \in RangeS(as) |-> [m |-> MeanOf(ac[a]), ms |-> ArmSeqMeans(as, ac)]]

(* Popularity: normalise the values v (a function on the arm set) *)
PopNormalize(as, v) ==
    LET tot == RSumSeq([i \in DOMAIN as |-> v[as[i]]])
    IN  IF RIsZero(tot) THEN [a \in RangeS(as) |-> RFrac(1, Len(as))]
        ELSE [a \in RangeS(as) |-> RDiv(v[a], tot)]

(* expectations after _parallel_fit over batch cb with new accumulators ac, new total tt,
   starting from stored expectations ex (already reset by fit, kept by partial_fit) *)
IncExp(as, ac, tt, ex, cb, isFit) ==
    LET touched(a) == a \in BatchLabels(cb) IN
    CASE LP = "eg" ->
           [a \in RangeS(as) |-> IF touched(a) THEN MeanOf(ac[a]) ELSE ex[a]]
      [] LP = "ucb1" ->
           [a \in RangeS(as) |->
               IF ac[a].n > 0 /\ (touched(a) \/ "UcbNoRefreshAbsent" \notin Dev)
               THEN [m |-> MeanOf(ac[a]),
                     N |-> IF "UcbBatchN" \in Dev THEN Len(cb) ELSE tt,
                     n |-> ac[a].n]
               ELSE ex[a]]
      [] LP = "softmax" -> SoftmaxAll(as, ac)
      [] LP = "pop" ->
           LET raw == [a \in RangeS(as) |->
                         IF "PopStaleNorm" \in Dev /\ ~isFit
                         THEN (IF touched(a) THEN MeanOf(ac[a]) ELSE ex[a])
                         ELSE MeanOf(ac[a])]
           IN  PopNormalize(as, raw)
      [] OTHER -> [a \in RangeS(as) |-> RZero]

(* the state a freshly constructed bandit with arm list as and binarizer bn reaches by fit(b) *)
FreshFit(as, bn, b) ==
    LET cb == [i \in DOMAIN b |-> [a |-> b[i].a, r |-> b[i].r, c |-> Binz(bn, b[i].a, b[i].r)]]
        ac == [a \in RangeS(as) |-> AccAdd(ZeroAcc, OfArm(cb, a))]
    IN  [arms |-> as, fitted |-> TRUE, hist |-> cb,
         born |-> [a \in RangeS(as) |-> 0], base |-> [a \in RangeS(as) |-> <<>>],
         acc |-> ac, total |-> Len(b),
         expv |-> IncExp(as, ac, Len(b), [a \in RangeS(as) |-> ZeroExp], cb, TRUE),
         status |-> [a \in RangeS(as) |-> [tr |-> a \in BatchLabels(cb), wm |-> FALSE, by |-> "none"]],
         bin |-> bn]

=============================================================================
