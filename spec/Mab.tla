-------------------------------- MODULE Mab --------------------------------
(***************************************************************************)
(* Life-cycle state machine of a context-free MABWiser bandit              *)
(*   MAB(arms, lp) ; ( fit | partial_fit | add_arm | remove_arm |          *)
(*                     warm_start | predict | predict_expectations |       *)
(*                     <rejected call> )*                                  *)
(* for lp in {EpsilonGreedy, UCB1, Softmax, Popularity, ThompsonSampling,  *)
(* Random}.                                                                *)
(*                                                                         *)
(* Two layers.  The actions are written the way the implementation works   *)
(* (per-arm accumulators updated incrementally by _fit_arm, expectations   *)
(* refreshed where the code refreshes them).  The Def* operators state the *)
(* documented meaning over the ghost history.  The invariants relate the   *)
(* two; TLC checks them on every history within the bounds; the replay     *)
(* harness executes every emitted edge on the real library and compares    *)
(* the projected object with the target state.                             *)
(*                                                                         *)
(* Deviations (constant Dev) switch single actions to behaviours the       *)
(* documented meaning forbids (present or past defects, typical slips).    *)
(* With Dev = {} no invariant may fail; with one deviation on TLC must     *)
(* produce a counterexample (non-vacuity).                                 *)
(***************************************************************************)
EXTENDS Integers, Sequences, FiniteSets, TLC, Json, Rat, Policies

CONSTANTS
    Labels,      \* every label that can ever be an arm or occur in a batch
    InitArms,    \* initial arm list (sequence without duplicates)
    Rewards,     \* raw reward values, integers in units
    MaxBatch,    \* rows per fit / partial_fit call
    MaxHist,     \* bound on rows since the last fit
    MaxDepth,    \* bound on the number of calls
    Ops,         \* enabled operations
    InitBin,     \* binarizer installed at construction (ts only): "none" | "thr" | "flip" | "ge2"
    NewBins,     \* binarizers add_arm may install ("keep" = none given)
    FeatSets,    \* sequence of feature maps [Labels -> sequence of Int]; a warm_start passes one of them (a caller may
                 \* change its feature dictionary between two calls)
    Quantiles,   \* set of rationals <<n, d>> in [0, 1]
    RejectKinds, \* fault classes to inject
    QueryRows    \* numbers of context rows a query may carry (0 = no contexts)
    \* (LP, Thr and Dev are declared in Policies)

VARIABLES
    arms,    \* current arm list                              MAB.arms
    fitted,  \* first fit happened                            MAB._is_initial_fit
    hist,    \* ghost: rows [a, r, c] since the most recent fit (r raw, c converted reward)
    born,    \* ghost: [arm -> index into hist after which its own rows count]
    base,    \* ghost: [arm -> rewards inherited through warm_start]
    acc,     \* [arm -> [s, n]] (sum, count)  or  [s, f] (successes+1, failures+1) for ts
    total,   \* UCB1's N                                      _UCB1.total_count
    expv,    \* [arm -> stored expectation as exact value or term]
    status,  \* [arm -> [tr, wm, by]]                         arm_to_status
    bin,     \* current binarizer                             _ThompsonSampling.binarizer
    last     \* the last call and its result descriptor (observation only, not fingerprinted)

modelVars == <<arms, fitted, acc, total, expv, status, bin>>
ghostVars == <<hist, born, base>>
vars      == <<arms, fitted, hist, born, base, acc, total, expv, status, bin, last>>

Rows == [a : Labels, r : Rewards]
Batches == UNION {[1..k -> Rows] : k \in 1..MaxBatch}

Conv(b) == [i \in DOMAIN b |-> [a |-> b[i].a, r |-> b[i].r, c |-> Binz(bin, b[i].a, b[i].r)]]

---------------------------------------------------------------------------
(* documented meaning over the ghost history *)

OwnFrom(a, i) == LET own == SelectSeq(SubSeq(hist, i, Len(hist)), LAMBDA h : h.a = a)
                 IN  [j \in 1..Len(own) |-> own[j].c]
Obs(a)   == base[a] \o OwnFrom(a, born[a] + 1)     \* rewards attributed to arm a
DefN(a)  == Len(Obs(a))
DefS(a)  == ISumSeq(Obs(a))
DefMean(a) == IF DefN(a) = 0 THEN RZero ELSE RFrac(DefS(a), DefN(a))
DefAcc(a)  == IF IsTS THEN [s |-> 1 + DefS(a), f |-> 1 + DefN(a) - DefS(a)]
              ELSE [s |-> DefS(a), n |-> DefN(a)]
DefMeans   == [i \in DOMAIN arms |-> DefMean(arms[i])]

DefTerm(a) ==
    CASE LP = "eg"      -> DefMean(a)
      [] LP = "ucb1"    -> IF DefN(a) = 0 THEN ZeroExp
                           ELSE [m |-> DefMean(a), N |-> Len(hist), n |-> DefN(a)]
      [] LP = "softmax" -> [m |-> DefMean(a), ms |-> DefMeans]
      [] LP = "pop"     -> LET tot == RSumSeq(DefMeans)
                           IN  IF RIsZero(tot) THEN RFrac(1, Len(arms)) ELSE RDiv(DefMean(a), tot)
      [] OTHER          -> RZero

---------------------------------------------------------------------------
(* initial state: a constructed, unfitted bandit *)
Init ==
    /\ arms = InitArms
    /\ fitted = FALSE
    /\ hist = <<>>
    /\ born = [a \in RangeS(InitArms) |-> 0]
    /\ base = [a \in RangeS(InitArms) |-> <<>>]
    /\ acc = [a \in RangeS(InitArms) |-> ZeroAcc]
    /\ total = 0
    /\ expv = [a \in RangeS(InitArms) |-> ZeroExp]
    /\ status = [a \in RangeS(InitArms) |-> ColdStatus]
    /\ bin = InitBin
    /\ last = [op |-> "init"]

StateRec == [arms |-> arms, fitted |-> fitted, hist |-> hist, born |-> born, base |-> base,
             acc |-> acc, total |-> total, expv |-> expv, status |-> status, bin |-> bin]

DoFit(b) ==
    LET f == FreshFit(arms, bin, b)
        keepAcc   == "FitKeepsSums" \in Dev
        keepStat  == "FitKeepsStatus" \in Dev
        ac0 == IF keepAcc THEN [a \in RangeS(arms) |-> AccAdd(acc[a], OfArm(f.hist, a))] ELSE f.acc
    IN  /\ arms' = arms /\ bin' = bin
        /\ fitted' = TRUE
        /\ hist' = f.hist /\ born' = f.born /\ base' = f.base
        /\ acc' = ac0
        /\ total' = (IF "UcbTotalAccumulates" \in Dev THEN total + Len(b) ELSE f.total)
        /\ expv' = (IF keepAcc THEN IncExp(arms, ac0, Len(b), [a \in RangeS(arms) |-> ZeroExp], f.hist, TRUE)
                    ELSE f.expv)
        /\ status' = (IF keepStat
                      THEN [a \in RangeS(arms) |-> [status[a] EXCEPT !.tr = @ \/ a \in BatchLabels(f.hist)]]
                      ELSE f.status)

Fit(b) ==
    /\ "fit" \in Ops
    /\ DoFit(b)
    /\ last' = [op |-> "fit", batch |-> b]

PartialFit(b) ==
    /\ "partial_fit" \in Ops
    /\ IF ~fitted
       THEN DoFit(b)      \* the first partial_fit is delegated to fit (mab.py)
       ELSE LET cb == Conv(b)
                ac == [a \in RangeS(arms) |-> AccAdd(acc[a], OfArm(cb, a))]
                tt == total + Len(b)
            IN  /\ Len(hist) + Len(b) <= MaxHist
                /\ arms' = arms /\ bin' = bin /\ fitted' = fitted
                /\ hist' = hist \o cb /\ born' = born /\ base' = base
                /\ acc' = ac
                /\ total' = tt
                /\ expv' = IncExp(arms, ac, tt, expv, cb, FALSE)
                /\ status' = [a \in RangeS(arms) |-> [status[a] EXCEPT !.tr = @ \/ a \in BatchLabels(cb)]]
    /\ last' = [op |-> "partial_fit", batch |-> b]

AddArm(a, nb) ==
    /\ "add_arm" \in Ops
    /\ a \in Labels \ RangeS(arms)
    /\ nb \in NewBins
    /\ nb # "keep" => IsTS
    /\ LET as == Append(arms, a)
           ac == Extend(acc, a, ZeroAcc)
       IN  /\ arms' = as
           /\ acc' = ac
           /\ expv' = (CASE LP = "softmax" -> SoftmaxAll(as, ac)
                         [] OTHER -> Extend(expv, a, ZeroExp))
           /\ status' = Extend(status, a, ColdStatus)
           /\ born' = Extend(born, a, Len(hist))
           /\ base' = Extend(base, a, <<>>)
    /\ bin' = (IF nb = "keep" THEN bin ELSE nb)
    /\ UNCHANGED <<fitted, hist, total>>
    /\ last' = [op |-> "add_arm", arm |-> a, bin |-> nb]

RemoveAt(s, a) == SelectSeq(s, LAMBDA x : x # a)

RemoveArm(a) ==
    /\ "remove_arm" \in Ops
    /\ a \in RangeS(arms)
    /\ Len(arms) > 1
    /\ LET as == RemoveAt(arms, a)
           ac == Restrict(acc, RangeS(as))
           ex == Restrict(expv, RangeS(as))
       IN  /\ arms' = as
           /\ acc' = ac
           /\ expv' = (CASE LP = "softmax" /\ "SoftmaxNoRenormOnDrop" \notin Dev -> SoftmaxAll(as, ac)
                         [] LP = "pop" /\ "PopNoRenormOnDrop" \notin Dev ->
                              IF "PopRenormSharesOnDrop" \in Dev THEN PopNormalize(as, ex)
                              ELSE PopNormalize(as, [x \in RangeS(as) |-> MeanOf(ac[x])])
                         [] OTHER -> ex)
           /\ status' = Restrict(status, RangeS(as))
           /\ born' = Restrict(born, RangeS(as))
           /\ base' = Restrict(base, RangeS(as))
    /\ UNCHANGED <<fitted, hist, total, bin>>
    /\ last' = [op |-> "remove_arm", arm |-> a]

---------------------------------------------------------------------------
(* warm start: exact cosine distances on integer-norm feature vectors *)
Dot(u, v)  == ISumSeq([i \in DOMAIN u |-> u[i] * v[i]])
ISqrt(n)   == CHOOSE k \in 0..n : k * k = n            \* features are chosen with integer norms
SelfDist   == <<999999, 1>>
CosDist0(fs, x, y) ==
    IF x = y THEN SelfDist
    ELSE LET nx == ISqrt(Dot(FeatSets[fs][x], FeatSets[fs][x]))  ny == ISqrt(Dot(FeatSets[fs][y], FeatSets[fs][y]))
         IN  IF nx = 0 \/ ny = 0 THEN SelfDist       \* cosine of a zero vector is NaN -> self distance
             ELSE RSub(ROne, RFrac(Dot(FeatSets[fs][x], FeatSets[fs][y]), nx * ny))
CosTab == [fs \in DOMAIN FeatSets |-> [x \in Labels |-> [y \in Labels |-> CosDist0(fs, x, y)]]]   \* constant: evaluated once by TLC
CosDist(fs, x, y) == CosTab[fs][x][y]

Closest(fs, x) == RMinSeq([i \in DOMAIN arms |-> CosDist(fs, x, arms[i])])
ClosestList(fs) == SelectSeq([i \in DOMAIN arms |-> Closest(fs, arms[i])], LAMBDA d : d # SelfDist)

ColdArms    == SelectSeq(arms, LAMBDA a : ~status[a].tr /\ ~status[a].wm)
TrainedArms == SelectSeq(arms, LAMBDA a : status[a].tr)
SourceArms  == IF "WarmFromWarm" \in Dev THEN SelectSeq(arms, LAMBDA a : status[a].tr \/ status[a].wm)
               ELSE TrainedArms

(* first arm of the sequence cand that minimises the distance from c *)
RECURSIVE ArgMinFrom(_, _, _, _, _)
ArgMinFrom(fs, c, cand, i, best) ==
    IF i > Len(cand) THEN best
    ELSE ArgMinFrom(fs, c, cand, i + 1,
                    IF RLt(CosDist(fs, c, cand[i]), CosDist(fs, c, best)) THEN cand[i] ELSE best)
NearestSource(fs, c) == ArgMinFrom(fs, c, SourceArms, 2, SourceArms[1])

QuantileExact(fs, q) ==     \* the quantile falls on a sample point (no interpolation)
    LET pos == RMul(R(Len(ClosestList(fs)) - 1), q) IN pos[2] = 1

WarmMap(fs, q) ==           \* cold arm -> source arm
    LET thr == RQuantile(ClosestList(fs), q)
        ok(c) == /\ Len(SourceArms) > 0
                 /\ IF "WarmThresholdStrict" \in Dev
                    THEN RLt(CosDist(fs, c, NearestSource(fs, c)), thr)
                    ELSE RLeq(CosDist(fs, c, NearestSource(fs, c)), thr)
        W == {c \in RangeS(ColdArms) : ok(c)}
    IN  [c \in W |-> NearestSource(fs, c)]

(* with an interpolated threshold the float comparison of a distance that equals the
   threshold exactly is not determined by the documentation: such calls are not generated *)
WarmUnambiguous(fs, q) ==
    \/ QuantileExact(fs, q)
    \/ LET thr == RQuantile(ClosestList(fs), q)
       IN  \A c \in RangeS(ColdArms) :
              Len(SourceArms) > 0 => CosDist(fs, c, NearestSource(fs, c)) # thr

WarmStart(q, fs) ==
    /\ "warm_start" \in Ops
    /\ LP # "random"
    /\ q \in Quantiles /\ fs \in DOMAIN FeatSets
    /\ Len(ClosestList(fs)) > 0
    /\ WarmUnambiguous(fs, q)
    /\ LET wm == WarmMap(fs, q)
           ac == [a \in RangeS(arms) |-> IF a \in DOMAIN wm THEN acc[wm[a]] ELSE acc[a]]
       IN  /\ acc' = ac
           /\ expv' = (CASE LP = "softmax" -> SoftmaxAll(arms, ac)
                         [] OTHER -> [a \in RangeS(arms) |-> IF a \in DOMAIN wm THEN expv[wm[a]] ELSE expv[a]])
           /\ status' = [a \in RangeS(arms) |->
                           IF a \in DOMAIN wm THEN [status[a] EXCEPT !.wm = TRUE, !.by = wm[a]] ELSE status[a]]
           /\ base' = [a \in RangeS(arms) |-> IF a \in DOMAIN wm THEN Obs(wm[a]) ELSE base[a]]
           /\ born' = [a \in RangeS(arms) |-> IF a \in DOMAIN wm THEN Len(hist) ELSE born[a]]
           /\ last' = [op |-> "warm_start", q |-> q, fs |-> fs, map |-> wm]
    /\ UNCHANGED <<arms, fitted, hist, total, bin>>

---------------------------------------------------------------------------
(* queries: read-only; the result descriptor says what the documentation promises *)

(* first arm in arm-list order attaining the maximum of the exact values v *)
RECURSIVE FirstArgmaxFrom(_, _, _)
FirstArgmaxFrom(v, i, best) ==
    IF i > Len(arms) THEN best
    ELSE FirstArgmaxFrom(v, i + 1, IF RLt(v[best], v[arms[i]]) THEN arms[i] ELSE best)
FirstArgmax(v) == FirstArgmaxFrom(v, 2, arms[1])

ResultDesc ==
    CASE LP = "eg"      -> [kind |-> "greedy", exp |-> expv, arm |-> FirstArgmax(expv)]
      [] LP = "ucb1"    -> [kind |-> "ucb1", exp |-> expv]
      [] LP = "softmax" -> [kind |-> "dirichlet_softmax", exp |-> expv]
      [] LP = "pop"     -> [kind |-> "dirichlet", exp |-> expv]
      [] LP = "ts"      -> [kind |-> "beta", acc |-> acc]
      [] OTHER          -> [kind |-> "uniform"]

Query(op, m) ==
    /\ op \in Ops
    /\ fitted
    /\ m \in QueryRows
    /\ last' = [op |-> op, m |-> m, res |-> ResultDesc]
    /\ UNCHANGED <<modelVars, ghostVars>>

(* rejected calls: nothing but `last` may change *)
Reject(k) ==
    /\ "reject" \in Ops
    /\ k \in RejectKinds
    /\ (k \in {"predict_unfitted", "predict_exp_unfitted"} => ~fitted)
    /\ (k \in {"ws_all_zero_features"} => FALSE)
    /\ last' = [op |-> "reject", kind |-> k]
    /\ UNCHANGED <<modelVars, ghostVars>>

Next ==
    \/ \E b \in Batches : Fit(b) \/ PartialFit(b)
    \/ \E a \in Labels, nb \in NewBins : AddArm(a, nb)
    \/ \E a \in Labels : RemoveArm(a)
    \/ \E q \in Quantiles, fs \in DOMAIN FeatSets : WarmStart(q, fs)
    \/ \E m \in QueryRows : Query("predict", m) \/ Query("predict_expectations", m)
    \/ \E k \in RejectKinds : Reject(k)

Spec == Init /\ [][Next]_vars

---------------------------------------------------------------------------
(* TLC plumbing *)
View   == <<arms, fitted, hist, born, base, acc, total, expv, status, bin>>
Bound  == Len(hist) <= MaxHist /\ TLCGet("level") <= MaxDepth
EmitOK == PrintT(ToJson([s |-> StateRec, l |-> last', t |-> StateRec']))

---------------------------------------------------------------------------
(* C08: every per-arm map ranges over exactly the current arms; no duplicates *)
Inv_C08_Keys ==
    /\ \A i, j \in DOMAIN arms : i # j => arms[i] # arms[j]
    /\ DOMAIN acc = RangeS(arms) /\ DOMAIN expv = RangeS(arms)
    /\ DOMAIN status = RangeS(arms)
    /\ Len(arms) >= 1

(* C01 / C06: the accumulators are the documented statistic of the arm's observations,
   however the history was chunked *)
Inv_C01_Acc == fitted => \A a \in RangeS(arms) : acc[a] = DefAcc(a)
Inv_C01_Total == fitted => total = Len(hist)

(* C01: the stored expectation is the documented function of those observations *)
Inv_C01_Term ==
    fitted =>
      CASE LP \in {"eg", "ucb1", "softmax"} -> \A a \in RangeS(arms) : expv[a] = DefTerm(a)
        [] LP = "pop" -> (last.op \in {"fit", "partial_fit", "remove_arm"}) =>
                            \A a \in RangeS(arms) : expv[a] = DefTerm(a)
        [] OTHER -> TRUE

(* C01: an arm without observations holds the neutral value *)
Inv_C01_Neutral ==
    fitted => \A a \in RangeS(arms) : DefN(a) = 0 =>
        CASE LP = "eg" -> expv[a] = RZero
          [] LP = "ucb1" -> expv[a] = ZeroExp
          [] LP = "ts" -> acc[a] = [s |-> 1, f |-> 1]
          [] OTHER -> TRUE

(* C13: cold arms are exactly those neither observed nor warm-started; a warm arm's source is an arm *)
Inv_C13_Cold ==
    \A a \in RangeS(arms) :
        /\ status[a].tr <=> (\E i \in (born[a] + 1)..Len(hist) : hist[i].a = a)
        /\ status[a].wm => status[a].by \in Labels
        /\ ~status[a].wm => status[a].by = "none"
        /\ (~status[a].tr /\ ~status[a].wm) => acc[a] = ZeroAcc

(* C07: fit discards everything learned before *)
Prop_C07_FitIsFresh ==
    [][last'.op = "fit" => StateRec' = FreshFit(arms, bin, last'.batch)]_vars

(* C10: queries are read-only *)
Prop_C10_ReadOnly ==
    [][last'.op \in {"predict", "predict_expectations"} => UNCHANGED <<modelVars, ghostVars>>]_vars

(* C17: a rejected call changes nothing *)
Prop_C17_RejectUnchanged ==
    [][last'.op = "reject" => UNCHANGED <<modelVars, ghostVars>>]_vars

(* C13: warm start touches only cold arms, copies exactly, from the nearest trained arm *)
Prop_C13_WarmStart ==
    [][last'.op = "warm_start" =>
         LET wm == last'.map IN
         /\ \A a \in RangeS(arms) \ DOMAIN wm : acc'[a] = acc[a] /\ status'[a] = status[a]
         /\ \A c \in DOMAIN wm :
              /\ ~status[c].tr /\ ~status[c].wm
              /\ status[wm[c]].tr
              /\ acc'[c] = acc[wm[c]]
              /\ status'[c] = [tr |-> FALSE, wm |-> TRUE, by |-> wm[c]]
              /\ \A w \in RangeS(TrainedArms) : RLeq(CosDist(last'.fs, c, wm[c]), CosDist(last'.fs, c, w))
         /\ arms' = arms /\ total' = total /\ fitted' = fitted
      ]_vars

(* C13: every cold arm whose nearest trained arm is within the quantile threshold is warmed
   (stated with the documented threshold, independently of WarmMap) *)
Prop_C13_Complete ==
    [][last'.op = "warm_start" =>
         LET q   == last'.q
             thr == RQuantile(ClosestList(last'.fs), q)
         IN  \A c \in RangeS(ColdArms) :
                (Len(TrainedArms) > 0 /\ \E w \in RangeS(TrainedArms) : RLeq(CosDist(last'.fs, c, w), thr))
                    => c \in DOMAIN last'.map
      ]_vars

(* C13: the warmed set grows with the quantile; repeating the call changes nothing *)
Inv_C13_Monotone ==
    \A fs \in DOMAIN FeatSets :
      (Len(ClosestList(fs)) > 0) =>
        \A q1, q2 \in Quantiles :
           RLeq(q1, q2) => DOMAIN WarmMap(fs, q1) \subseteq DOMAIN WarmMap(fs, q2)

Prop_C13_Idempotent ==
    [][(last'.op = "warm_start" /\ last.op = "warm_start" /\ last'.q = last.q /\ last'.fs = last.fs) =>
          UNCHANGED modelVars]_vars

(* C08 for queries, C09: the arm returned by predict is the first maximiser in arm order *)
Inv_C09_FirstArgmax ==
    (last.op = "predict" /\ LP = "eg") =>
        /\ last.res.arm \in RangeS(arms)
        /\ \A a \in RangeS(arms) : RLeq(expv[a], expv[last.res.arm])
        /\ \A i \in DOMAIN arms :
              (arms[i] = last.res.arm) => \A j \in 1..(i - 1) : RLt(expv[arms[j]], expv[arms[i]])

---------------------------------------------------------------------------
(* C20: the documented statistics are invariant to arm names and to the order of the training rows, and react to
   reward shifts / scalings in the documented way.  Stated on the Def layer for histories without arm changes and
   warm starts (born = 0, base empty), checked by TLC in every such reachable state. *)
PlainHistory == (\A a \in RangeS(arms) : born[a] = 0 /\ base[a] = <<>>)
StatsOfRows(h, a) == LET own == SelectSeq(h, LAMBDA row : row.a = a)
                     IN  <<ISumSeq([i \in DOMAIN own |-> own[i].c]), Len(own)>>
Perms(n) == {f \in [1..n -> 1..n] : \A i, j \in 1..n : i # j => f[i] # f[j]}
Inv_C20_RowOrder ==
    (fitted /\ PlainHistory /\ Len(hist) <= 4) =>
        \A f \in Perms(Len(hist)) : \A a \in RangeS(arms) :
            StatsOfRows([i \in DOMAIN hist |-> hist[f[i]]], a) = StatsOfRows(hist, a)
Inv_C20_Rename ==
    (fitted /\ PlainHistory) =>
        \A f \in {g \in [Labels -> Labels] : \A x, y \in Labels : x # y => g[x] # g[y]} :
            \A a \in RangeS(arms) :
                StatsOfRows([i \in DOMAIN hist |-> [a |-> f[hist[i].a], r |-> hist[i].r, c |-> hist[i].c]], f[a])
                    = StatsOfRows(hist, a)
(* shifting every reward by k shifts the mean of an observed arm by k and leaves differences of means (hence
   soft-max shares and the UCB1 bonus, which does not involve rewards) unchanged; scaling scales the mean *)
Inv_C20_ShiftScale ==
    (fitted /\ PlainHistory) =>
        \A a \in RangeS(arms) : \A k \in {1, 2} :
            LET st == StatsOfRows(hist, a) IN
            (st[2] > 0) =>
                /\ RFrac(st[1] + k * st[2], st[2]) = RAdd(RFrac(st[1], st[2]), R(k))
                /\ RFrac(k * st[1], st[2]) = RMul(R(k), RFrac(st[1], st[2]))
                /\ \A b \in RangeS(arms) :
                      LET sb == StatsOfRows(hist, b) IN
                      (sb[2] > 0) => RSub(RFrac(st[1] + k * st[2], st[2]), RFrac(sb[1] + k * sb[2], sb[2]))
                                        = RSub(RFrac(st[1], st[2]), RFrac(sb[1], sb[2]))
=============================================================================
