------------------------------ MODULE TraceSim ------------------------------
(***************************************************************************)
(* Validation of the public attributes of real Simulator runs (C16).       *)
(* Each run record carries the data, the parameters and what the Simulator *)
(* reported: test_indices, arm_to_stats_total/train/test, per bandit the   *)
(* predictions and the min / mean / max analyses (and the neighbourhood    *)
(* statistics when they were used).  TLC recomputes everything exactly.    *)
(***************************************************************************)
EXTENDS Sim, IOUtils

Runs == JsonDeserialize(IOEnv.TRACE_FILE)
VARIABLE tid
Check(name, cond) == IF cond THEN TRUE ELSE PrintT(<<"FAIL", tid, name>>) /\ FALSE

Rat2(v) == <<v[1], v[2]>>
SameStats(rep, exact) ==        \* rep: reported record, exact: StatsOf(...)
    IF exact.count = 0 THEN rep.count = 0
    ELSE /\ rep.count = exact.count /\ Rat2(rep.sum) = exact.sum /\ Rat2(rep.min) = exact.min
         /\ Rat2(rep.max) = exact.max /\ Rat2(rep.mean) = exact.mean

RowsAt(data, idx) == [i \in DOMAIN idx |-> data[idx[i] + 1]]
Complement(n, idx) == SelectSeq([i \in 1..n |-> i - 1], LAMBDA j : j \notin RangeS(idx))

RunOK(r) ==
    LET n == Len(r.data)
        \* the split arithmetic is exact (and specified) for dyadic test sizes; for the others the number of test rows
        \* is whatever the floating-point computation gives and only the laws that do not depend on it are checked
        T == IF r.exact THEN TestCount(n, r.ts, r.ordered) ELSE Len(r.test_indices)
        testRows == RowsAt(r.data, r.test_indices)
        trainRows == RowsAt(r.data, Complement(n, r.test_indices))
    IN
    /\ Check("split.size", Len(r.test_indices) = T)
    /\ Check("split.distinct_in_range",
             /\ \A i, j \in DOMAIN r.test_indices : i # j => r.test_indices[i] # r.test_indices[j]
             /\ \A i \in DOMAIN r.test_indices : r.test_indices[i] \in 0..(n - 1))
    /\ Check("split.last_rows", r.ordered => r.test_indices = [i \in 1..T |-> n - T + i - 1])
    /\ Check("stats.total", \A a \in RangeS(r.arms) : SameStats(r.stats.total[a], ArmStats(r.data, a)))
    /\ Check("stats.train", \A a \in RangeS(r.arms) : SameStats(r.stats.train[a], ArmStats(trainRows, a)))
    /\ Check("stats.test", \A a \in RangeS(r.arms) : SameStats(r.stats.test[a], ArmStats(testRows, a)))
    /\ Check("stats.conservation",
             \A a \in RangeS(r.arms) :
                 /\ r.stats.train[a].count + r.stats.test[a].count = r.stats.total[a].count
                 /\ (r.stats.total[a].count > 0) =>
                       RAdd(IF r.stats.train[a].count > 0 THEN Rat2(r.stats.train[a].sum) ELSE RZero,
                            IF r.stats.test[a].count > 0 THEN Rat2(r.stats.test[a].sum) ELSE RZero) = Rat2(r.stats.total[a].sum))
    /\ \A b \in DOMAIN r.bandits :
        LET bd == r.bandits[b] IN
        /\ Check("predictions.count", Len(bd.predictions) = T)
        /\ Check("predictions.members", \A i \in DOMAIN bd.predictions : bd.predictions[i] \in RangeS(r.arms))
        /\ \A st \in {"min", "mean", "max"} :
              /\ Check("eval.credit." \o st,
                       \A a \in RangeS(r.arms) :
                           SameStats(bd.evals[st][a], EvalArm(testRows, trainRows, bd.predictions, bd.nb, a, st)))
              /\ Check("eval.counts_sum", ISumSeq([i \in DOMAIN r.arms |-> bd.evals[st][r.arms[i]].count]) = T)
        /\ \A st \in {"min", "mean", "max"} : \A k \in DOMAIN bd.batches :
              Check("eval.batch." \o st,
                    \A a \in RangeS(r.arms) :
                        SameStats(bd.batches[k][st][a],
                                  EvalArmIn(testRows, trainRows, bd.predictions, bd.nb, a, st,
                                            (k - 1) * r.batch + 1, IF k * r.batch < T THEN k * r.batch ELSE T)))
        /\ (bd.metric # "" /\ bd.nb # <<>>) =>
              Check("nb.stats",
                    \A i \in DOMAIN bd.nb : \A a \in RangeS(r.arms) :
                        LET want == NbStat(trainRows, testRows, i, r.batch, bd.metric, bd.radius, a)
                            got == bd.nb[i][a]
                        IN  IF want[1] = 0 THEN got[1] = 0
                            ELSE /\ got[1] = 1 /\ Rat2(got[2]) = want[2] /\ Rat2(got[3]) = want[3] /\ Rat2(got[4]) = want[4])
        /\ Check("eval.ordered",
                 \A a \in RangeS(r.arms) :
                     (bd.evals["mean"][a].count > 0) =>
                        /\ RLeq(Rat2(bd.evals["min"][a].mean), Rat2(bd.evals["mean"][a].mean))
                        /\ RLeq(Rat2(bd.evals["mean"][a].mean), Rat2(bd.evals["max"][a].mean))
                        /\ RLeq(Rat2(bd.evals["mean"][a].min), Rat2(bd.evals["mean"][a].mean))
                        /\ RLeq(Rat2(bd.evals["mean"][a].mean), Rat2(bd.evals["mean"][a].max)))

TInit == /\ tid \in 1..Len(Runs) /\ cfg = [n |-> 0] /\ emitted = FALSE
TNext == /\ ~emitted /\ emitted' = TRUE /\ UNCHANGED <<cfg, tid>>
         /\ RunOK(Runs[tid])
         /\ PrintT(<<"OK", tid>>)
=============================================================================
