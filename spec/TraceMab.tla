------------------------------ MODULE TraceMab ------------------------------
(***************************************************************************)
(* Trace validation for Mab.tla (leg C, code -> spec) in the regime the    *)
(* exhaustive model cannot reach: long histories, batches of up to 50      *)
(* rows, 2-6 arms, large / negative / fractional rewards (integers in a    *)
(* dyadic unit).  A seeded driver runs real context-free bandits and logs  *)
(* every training call and arm change with the accumulators the object     *)
(* holds afterwards; TLC replays the specification actions with the logged *)
(* arguments, compares the accumulators exactly, evaluates Inv_C01_* in    *)
(* every state and prints the exact expectation terms, which the harness   *)
(* evaluates and compares with the stored expectations it recorded.        *)
(***************************************************************************)
EXTENDS Mab, IOUtils

Traces == JsonDeserialize(IOEnv.TRACE_FILE)
VARIABLES tid, l
Check(name, cond) == IF cond THEN TRUE ELSE PrintT(<<"FAIL", tid, l, name>>) /\ FALSE
Ev == Traces[tid].events[l]

TInit == /\ tid \in 1..Len(Traces) /\ l = 1
         /\ arms = Traces[tid].arms /\ fitted = FALSE /\ hist = <<>>
         /\ born = [a \in RangeS(Traces[tid].arms) |-> 0] /\ base = [a \in RangeS(Traces[tid].arms) |-> <<>>]
         /\ acc = [a \in RangeS(Traces[tid].arms) |-> ZeroAcc] /\ total = 0
         /\ expv = [a \in RangeS(Traces[tid].arms) |-> ZeroExp]
         /\ status = [a \in RangeS(Traces[tid].arms) |-> ColdStatus]
         /\ bin = "none" /\ last = [op |-> "init"]

AccAsLogged(ac) == IF IsTS THEN <<ac.s, ac.f>> ELSE <<ac.s, ac.n>>
(* what the event logged about the state it produced *)
PostOK(e) ==
    /\ Check("post.arms", arms' = e.post.arms)
    /\ Check("post.acc", \A a \in RangeS(arms') : AccAsLogged(acc'[a]) = e.post.acc[a])
    /\ Check("post.total", LP = "ucb1" => total' = e.post.total)
    /\ PrintT(ToJson([tid |-> tid, l |-> l, expv |-> expv', arms |-> arms']))

(* the invariants of Mab.tla, evaluated on the current (unprimed) state: the state event l-1 produced.  They are   *)
(* not written with primes inside the action because TLC evaluates primed operator applications without caching.   *)
CheckState(name, cond) == IF cond THEN TRUE ELSE PrintT(<<"FAIL", tid, l - 1, name>>) /\ FALSE
StateOK ==
    /\ CheckState("Inv_C01_Acc", Inv_C01_Acc)
    /\ CheckState("Inv_C01_Total", Inv_C01_Total)
    /\ CheckState("Inv_C01_Term", Inv_C01_Term)
    /\ CheckState("Inv_C08_Keys", Inv_C08_Keys)

TNext ==
    /\ l <= Len(Traces[tid].events) /\ l' = l + 1 /\ UNCHANGED tid
    /\ StateOK
    /\ LET e == Ev IN
       CASE e.op = "fit" -> Fit(e.batch) /\ PostOK(e)
         [] e.op = "partial_fit" -> PartialFit(e.batch) /\ PostOK(e)
         [] e.op = "add_arm" -> AddArm(e.arm, "keep") /\ PostOK(e)
         [] e.op = "remove_arm" -> RemoveArm(e.arm) /\ PostOK(e)

Done == (l = Len(Traces[tid].events) + 1) => (IF StateOK THEN PrintT(<<"DONE", tid>>) ELSE TRUE)
TView == <<View, tid, l>>
=============================================================================
