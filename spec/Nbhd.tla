------------------------------- MODULE Nbhd -------------------------------
(***************************************************************************)
(* Neighbourhood policies of MABWiser: Radius, KNearest, LSHNearest,       *)
(* Clusters and TreeBandit over a context-free learning policy.            *)
(*                                                                         *)
(* State = the stored history (all rows passed to fit and to every later   *)
(* partial_fit) plus the policy's index structures:                        *)
(*   lsh      tables[k][h] = sequence of row indices with signature h in   *)
(*            table k; the hyperplanes (hence the signature of a context)  *)
(*            are fixed by fit (epoch)                                     *)
(*   clusters the cell of every stored row (k-means is refit on the whole  *)
(*            history at every fit and partial_fit)                        *)
(*   tree     per arm: built flag, the leaf of each of the arm's rows, and *)
(*            the rewards per leaf; an arm's tree is built when the arm    *)
(*            first receives rows after a fit and frozen afterwards        *)
(* What a geometry (hyperplanes, k-means, CART) assigns to a context is    *)
(* not modelled: signatures / cells / leaves are parameters of the actions,*)
(* chosen by the environment.  The exhaustive model quantifies over all of *)
(* them; the trace validator (TraceNbhd.tla) binds them to what the real   *)
(* sklearn / NumPy objects report.                                         *)
(*                                                                         *)
(* The result of a query is DEFINED here: the learning policy trained from *)
(* scratch (Policies!FreshFit) on exactly the selected rows.               *)
(***************************************************************************)
EXTENDS Integers, Sequences, FiniteSets, TLC, Json, Rat, Policies

CONSTANTS
    NP,         \* "radius" | "knearest" | "lsh" | "clusters" | "tree"
    Labels, InitArms, Rewards,
    Ctx,        \* context points used by the exhaustive model (sequences of integers)
    Metric,     \* "cityblock" | "chebyshev" | "sqeuclidean" | "euclidean"
    Radius,     \* rational <<n, d>>
    K,          \* k of KNearest
    NTables,    \* LSH tables
    NSig,       \* number of signatures per table (2^n_dimensions)
    NCells,     \* clusters / leaves per tree in the exhaustive model
    MaxBatch, MaxHist, MaxDepth,
    Ops, InitBin, NewBins

VARIABLES
    arms,     \* current arm list
    fitted,
    hist,     \* rows [a, r, c, x, g]: arm, raw reward, converted reward, context, geometry tag
              \*   g = <<sig_1 .. sig_T>> (lsh) | cell (clusters) | leaf in its arm's tree (tree) | 0
    bin,      \* Thompson binarizer
    epoch,    \* lsh: number of fits so far (a fit draws new hyperplanes)
    tables,   \* lsh: [1..NTables -> [0..NSig-1 -> Seq(index)]]
    built,    \* tree: [arm -> BOOLEAN]
    since,    \* tree: [arm -> index into hist after which the arm's rows are in its leaf bookkeeping]
    leafRew,  \* tree: [arm -> [leaf -> Seq(converted reward)]] for leaves that received rows
    last

vars == <<arms, fitted, hist, bin, epoch, tables, built, since, leafRew, last>>
modelVars == <<arms, fitted, hist, bin, epoch, tables, built, since, leafRew>>

---------------------------------------------------------------------------
(* distances, exact on integer points *)
AbsI(i) == IF i < 0 THEN -i ELSE i
MaxI(s) == CHOOSE m \in {s[i] : i \in DOMAIN s} : \A j \in DOMAIN s : s[j] <= m
D1(u, v)  == ISumSeq([i \in DOMAIN u |-> AbsI(u[i] - v[i])])
Dinf(u, v) == MaxI([i \in DOMAIN u |-> AbsI(u[i] - v[i])])
D2sq(u, v) == ISumSeq([i \in DOMAIN u |-> (u[i] - v[i]) * (u[i] - v[i])])

(* a comparable key of the distance: the distance itself, or its square for euclidean *)
DKey(u, v) == CASE Metric = "cityblock" -> D1(u, v)
                [] Metric = "chebyshev" -> Dinf(u, v)
                [] OTHER -> D2sq(u, v)
(* distance <= Radius *)
Within(u, v) ==
    IF Metric = "euclidean"
    THEN RLeq(R(D2sq(u, v)), RMul(Radius, Radius))
    ELSE RLeq(R(DKey(u, v)), Radius)

RadiusSet(h, q) == {i \in DOMAIN h : Within(h[i].x, q)}

(* every k-subset S whose largest distance does not exceed the smallest distance outside S *)
KSets(h, q) ==
    {S \in SUBSET (DOMAIN h) :
        /\ Cardinality(S) = K
        /\ \A i \in S, j \in (DOMAIN h) \ S : DKey(h[i].x, q) <= DKey(h[j].x, q)}

(* rows colliding with signature tuple qs in at least one table *)
LshSet(h, qs) == {i \in DOMAIN h : \E k \in 1..NTables : h[i].g[k] = qs[k]}
(* the same set read from the tables, as the code does *)
TableSet(tb, qs) == UNION {{tb[k][qs[k]][j] : j \in DOMAIN tb[k][qs[k]]} : k \in 1..NTables}

CellSet(h, c) == {i \in DOMAIN h : h[i].g = c}

(* ascending sequence of a finite set of naturals *)
RECURSIVE SetToSeq(_)
SetToSeq(S) == IF S = {} THEN <<>>
               ELSE LET m == CHOOSE x \in S : \A y \in S : x <= y IN <<m>> \o SetToSeq(S \ {m})

RowsOf(h, S) == [j \in 1..Cardinality(S) |-> h[SetToSeq(S)[j]]]

---------------------------------------------------------------------------
(* the documented result: the learning policy trained from scratch on the selected rows *)
AsBatch(rows) == [i \in DOMAIN rows |-> [a |-> rows[i].a, r |-> rows[i].c]]
PolicyOn(as, rows) == FreshFit(as, "none", AsBatch(rows))       \* rewards are already converted

ResultOn(as, h, S) ==
    IF S = {} THEN [nan |-> TRUE]
    ELSE LET f == PolicyOn(as, RowsOf(h, S))
         IN  [nan |-> FALSE, sel |-> SetToSeq(S), acc |-> f.acc, expv |-> f.expv, total |-> f.total]

(* tree: each arm's statistic over the rewards in the query's leaf of that arm's tree *)
TreeArmResult(a, ql) ==
    IF ~built[a] THEN [has |-> FALSE]
    ELSE LET rs == IF ql[a] \in DOMAIN leafRew[a] THEN leafRew[a][ql[a]] ELSE <<>>
             f  == FreshFit(<<a>>, "none", [i \in DOMAIN rs |-> [a |-> a, r |-> rs[i]]])
         IN  [has |-> TRUE, n |-> Len(rs), acc |-> f.acc[a], expv |-> f.expv[a], total |-> f.total]

---------------------------------------------------------------------------
InitWith(as, bn) ==
    /\ arms = as /\ fitted = FALSE /\ hist = <<>> /\ bin = bn /\ epoch = 0
    /\ tables = [k \in 1..NTables |-> [h \in 0..(NSig - 1) |-> <<>>]]
    /\ built = [a \in RangeS(as) |-> FALSE]
    /\ since = [a \in RangeS(as) |-> 0]
    /\ leafRew = [a \in RangeS(as) |-> <<>>]
    /\ last = [op |-> "init"]
Init == InitWith(InitArms, InitBin)

(* a batch with its geometry: rows [a, r, x, g] *)
ConvRows(b) == [i \in DOMAIN b |->
                 [a |-> b[i].a, r |-> b[i].r, c |-> Binz(bin, b[i].a, b[i].r), x |-> b[i].x, g |-> b[i].g]]

IdxWith(rows, k, h, off) ==       \* ascending indices (offset by off) of rows with signature h in table k
    SetToSeq({i + off : i \in {j \in DOMAIN rows : rows[j].g[k] = h}})

(* leaf bookkeeping of arm a after rows cb were added (cb already converted) *)
RECURSIVE LeafAdd(_, _, _, _)
LeafAdd(lr, cb, a, i) ==
    IF i > Len(cb) THEN lr
    ELSE IF cb[i].a # a THEN LeafAdd(lr, cb, a, i + 1)
    ELSE LET l == cb[i].g
             cur == IF l \in DOMAIN lr THEN lr[l] ELSE <<>>
             nxt == [x \in (DOMAIN lr) \cup {l} |-> IF x = l THEN Append(cur, cb[i].c) ELSE lr[x]]
         IN  LeafAdd(nxt, cb, a, i + 1)

HasRows(cb, a) == \E i \in DOMAIN cb : cb[i].a = a

DoFit(b) ==
    LET cb == ConvRows(b) IN
    /\ fitted' = TRUE /\ arms' = arms /\ bin' = bin
    /\ hist' = cb
    /\ epoch' = epoch + 1
    /\ tables' = (IF NP = "lsh"
                  THEN [k \in 1..NTables |-> [h \in 0..(NSig - 1) |->
                          IF "LshKeepTables" \in Dev THEN tables[k][h] \o IdxWith(cb, k, h, 0)
                          ELSE IdxWith(cb, k, h, 0)]]
                  ELSE tables)
    /\ built' = [a \in RangeS(arms) |-> NP = "tree" /\ HasRows(cb, a)]
    /\ since' = [a \in RangeS(arms) |-> 0]
    /\ leafRew' = [a \in RangeS(arms) |-> IF NP = "tree" THEN LeafAdd(<<>>, cb, a, 1) ELSE <<>>]

Fit(b) == /\ "fit" \in Ops /\ DoFit(b) /\ last' = [op |-> "fit", batch |-> b]

(* allg: for clusters the cell of EVERY stored row after the call (k-means is refit on the whole
   history); ignored by the other policies *)
PartialFit(b, allg) ==
    /\ "partial_fit" \in Ops
    /\ IF ~fitted THEN DoFit(b)
       ELSE LET cb == ConvRows(b)  off == Len(hist)  all == hist \o cb IN
            /\ Len(hist) + Len(b) <= MaxHist
            /\ fitted' = fitted /\ arms' = arms /\ bin' = bin /\ epoch' = epoch
            /\ hist' = (IF NP = "clusters" /\ "ClustersNoRefit" \notin Dev
                        THEN [i \in DOMAIN all |-> [all[i] EXCEPT !.g = allg[i]]]
                        ELSE all)
            /\ tables' = (IF NP = "lsh"
                          THEN [k \in 1..NTables |-> [h \in 0..(NSig - 1) |->
                                  tables[k][h] \o IdxWith(cb, k, h, IF "LshNoOffset" \in Dev THEN 0 ELSE off)]]
                          ELSE tables)
            /\ built' = [a \in RangeS(arms) |-> built[a] \/ (NP = "tree" /\ HasRows(cb, a))]
            /\ since' = since
            /\ leafRew' = [a \in RangeS(arms) |-> IF NP = "tree" THEN LeafAdd(leafRew[a], cb, a, 1) ELSE <<>>]
    /\ last' = [op |-> "partial_fit", batch |-> b]

AddArm(a, nb) ==
    /\ "add_arm" \in Ops /\ a \in Labels \ RangeS(arms) /\ nb \in NewBins
    /\ nb # "keep" => IsTS
    /\ arms' = Append(arms, a)
    /\ bin' = (IF nb = "keep" THEN bin ELSE nb)
    /\ built' = Extend(built, a, FALSE) /\ since' = Extend(since, a, Len(hist)) /\ leafRew' = Extend(leafRew, a, <<>>)
    /\ UNCHANGED <<fitted, hist, epoch, tables>>
    /\ last' = [op |-> "add_arm", arm |-> a, bin |-> nb]

RemoveArm(a) ==
    /\ "remove_arm" \in Ops /\ a \in RangeS(arms) /\ Len(arms) > 1
    /\ arms' = SelectSeq(arms, LAMBDA x : x # a)
    /\ built' = Restrict(built, RangeS(arms) \ {a}) /\ since' = Restrict(since, RangeS(arms) \ {a})
    /\ leafRew' = Restrict(leafRew, RangeS(arms) \ {a})
    /\ UNCHANGED <<fitted, hist, epoch, tables, bin>>
    /\ last' = [op |-> "remove_arm", arm |-> a]

(* the set of results the documentation allows for query point q with geometry qg
   (qg = signature tuple | cell | [arm -> leaf]) *)
Allowed(q, qg) ==
    CASE NP = "radius"   -> {ResultOn(arms, hist, RadiusSet(hist, q))}
      [] NP = "knearest" -> {ResultOn(arms, hist, S) : S \in KSets(hist, q)}
      [] NP = "lsh"      -> {ResultOn(arms, hist, LshSet(hist, qg))}
      [] NP = "clusters" -> LET S == CellSet(hist, qg) IN      \* a cluster without rows: the policy trained on nothing
                            IF S = {} THEN {[nan |-> FALSE, sel |-> <<>>, acc |-> PolicyOn(arms, <<>>).acc,
                                             expv |-> PolicyOn(arms, <<>>).expv, total |-> 0]}
                            ELSE {ResultOn(arms, hist, S)}
      [] NP = "tree"     -> {[nan |-> FALSE, tree |-> [a \in RangeS(arms) |-> TreeArmResult(a, qg)]]}

Query(op, q, qg) ==
    /\ op \in Ops /\ fitted
    /\ (NP = "knearest" => K <= Len(hist))
    /\ last' = [op |-> op, q |-> q, qg |-> qg, allowed |-> Allowed(q, qg)]
    /\ UNCHANGED modelVars

---------------------------------------------------------------------------
(* exhaustive model: the environment picks any geometry consistent with "a function of the context,
   fixed per epoch (lsh) / per clustering (clusters) / per tree (tree)" *)
SigTuples == [1..NTables -> 0..(NSig - 1)]
GeoOf(x, G) == G[x]
Geometries == CASE NP = "lsh" -> [Ctx -> SigTuples]
                [] NP = "clusters" -> [Ctx -> 1..NCells]
                [] NP = "tree" -> [Ctx -> 1..NCells]
                [] OTHER -> [Ctx -> {0}]
RawRows == [a : Labels, r : Rewards, x : Ctx]
RawBatches == UNION {[1..n -> RawRows] : n \in 1..MaxBatch}
WithGeo(rb, G) == [i \in DOMAIN rb |-> [a |-> rb[i].a, r |-> rb[i].r, x |-> rb[i].x, g |-> G[rb[i].x]]]

(* the geometry in force: for lsh it is fixed by the last fit, which the exhaustive model keeps in
   the rows themselves (a stored row with the same context determines the signature) *)
Consistent(G) == \A i \in DOMAIN hist : G[hist[i].x] = hist[i].g

NextX ==
    \/ \E rb \in RawBatches, G \in Geometries : Fit(WithGeo(rb, G))
    \/ \E rb \in RawBatches, G \in Geometries :
          /\ (NP \in {"lsh", "tree"} /\ fitted) => Consistent(G)
          /\ PartialFit(WithGeo(rb, G), [i \in 1..(Len(hist) + Len(rb)) |->
                                          IF i <= Len(hist) THEN G[hist[i].x] ELSE G[rb[i - Len(hist)].x]])
    \/ \E a \in Labels, nb \in NewBins : AddArm(a, nb)
    \/ \E a \in Labels : RemoveArm(a)
    \/ \E q \in Ctx, G \in Geometries :
          /\ NP \in {"lsh", "clusters", "tree"} => Consistent(G)
          /\ Query("predict_expectations", q, IF NP = "tree" THEN [a \in RangeS(arms) |-> G[q]] ELSE G[q])

SpecX == Init /\ [][NextX]_vars

View  == <<arms, fitted, hist, bin, tables, built, since, leafRew>>
Bound == Len(hist) <= MaxHist /\ TLCGet("level") <= MaxDepth

---------------------------------------------------------------------------
(* C11: the tables hold exactly the colliding rows, under their position in the accumulated history *)
Inv_C11_Tables ==
    (NP = "lsh" /\ fitted) =>
        \A k \in 1..NTables, h \in 0..(NSig - 1) :
            tables[k][h] = SetToSeq({i \in DOMAIN hist : hist[i].g[k] = h})
Inv_C11_Union ==
    (NP = "lsh" /\ fitted) => \A qs \in SigTuples : TableSet(tables, qs) = LshSet(hist, qs)
(* a stored row is always in its own neighbourhood *)
Inv_C11_Self ==
    (NP = "lsh" /\ fitted) => \A i \in DOMAIN hist : i \in TableSet(tables, hist[i].g)
(* C03: a stored row is within any radius of itself and among its own k nearest *)
Inv_C03_Self ==
    (fitted /\ NP = "radius") => \A i \in DOMAIN hist : i \in RadiusSet(hist, hist[i].x)
Inv_C03_KSetsExist ==
    (fitted /\ NP = "knearest" /\ K <= Len(hist)) => \A q \in Ctx : KSets(hist, q) # {}
(* C12: leaf bookkeeping = the arm's rewards grouped by leaf, in arrival order *)
LeafIdx(a, l) == SetToSeq({i \in (since[a] + 1)..Len(hist) : hist[i].a = a /\ hist[i].g = l})
Inv_C12_Leaves ==
    (NP = "tree" /\ fitted) =>
        \A a \in RangeS(arms) :
            /\ built[a] <=> (\E i \in (since[a] + 1)..Len(hist) : hist[i].a = a)
            /\ \A l \in DOMAIN leafRew[a] :
                  leafRew[a][l] = [j \in DOMAIN LeafIdx(a, l) |-> hist[LeafIdx(a, l)[j]].c]
(* C08 *)
Inv_C08_Keys ==
    /\ \A i, j \in DOMAIN arms : i # j => arms[i] # arms[j]
    /\ DOMAIN built = RangeS(arms) /\ DOMAIN leafRew = RangeS(arms)
(* C10 / C07 *)
Prop_C10_ReadOnly == [][last'.op \in {"predict", "predict_expectations"} => UNCHANGED modelVars]_vars
Prop_C07_FitIsFresh ==
    [][last'.op = "fit" => /\ hist' = ConvRows(last'.batch)
                           /\ (NP = "lsh" => \A k \in 1..NTables, h \in 0..(NSig - 1) :
                                  tables'[k][h] = IdxWith(hist', k, h, 0))]_vars
=============================================================================
