------------------------------- MODULE Multi -------------------------------
(***************************************************************************)
(* Several bandit objects in one interpreter (C04).                        *)
(*                                                                         *)
(* An observed instance A runs its script; an interferer B (another        *)
(* bandit with another seed, plus draws from the process-global random     *)
(* generators) runs its own; the steps interleave in every possible way.   *)
(* Process-global state is modelled explicitly: `shared` is what           *)
(* constructors and calls may write outside their own object (a mutable    *)
(* class-level default, the global NumPy generator).  Each output of A     *)
(* records what it was computed from.  The property: A's outputs are a     *)
(* function of A's own history - never of `shared`, never of B.            *)
(* TLC emits every complete interleaving; the harness executes each on     *)
(* real objects and compares A's outputs with the solo run, also across    *)
(* interpreters and hash seeds.                                            *)
(***************************************************************************)
EXTENDS Integers, Sequences, FiniteSets, TLC, Json

CONSTANTS ScriptA, ScriptB, Dev

VARIABLES pcA, pcB, shared, outA, sched
vars == <<pcA, pcB, shared, outA, sched>>

Init == pcA = 1 /\ pcB = 1 /\ shared = <<>> /\ outA = <<>> /\ sched = <<>>

IsQuery(op) == op \in {"predict", "predict_expectations"}

StepA ==
    /\ pcA <= Len(ScriptA)
    /\ LET op == ScriptA[pcA] IN
       /\ outA' = (IF IsQuery(op) \/ op = "fit"
                   THEN Append(outA, [own |-> SubSeq(ScriptA, 1, pcA),
                                      global |-> IF "ReadsShared" \in Dev THEN shared ELSE <<>>])
                   ELSE outA)
       /\ shared' = (IF op = "construct" /\ "WritesShared" \in Dev THEN Append(shared, "A") ELSE shared)
    /\ pcA' = pcA + 1 /\ sched' = Append(sched, "A") /\ UNCHANGED pcB

StepB ==
    /\ pcB <= Len(ScriptB)
    /\ shared' = (IF ScriptB[pcB] \in {"global_draw", "global_seed"} \/ "WritesShared" \in Dev
                  THEN Append(shared, ScriptB[pcB]) ELSE shared)
    /\ pcB' = pcB + 1 /\ sched' = Append(sched, "B") /\ UNCHANGED <<pcA, outA>>

Next == StepA \/ StepB
Spec == Init /\ [][Next]_vars

Solo == [i \in 1..Len(SelectSeq([j \in 1..Len(ScriptA) |-> j], LAMBDA j : IsQuery(ScriptA[j]) \/ ScriptA[j] = "fit")) |->
            [own |-> SubSeq(ScriptA, 1, SelectSeq([j \in 1..Len(ScriptA) |-> j],
                                                  LAMBDA j : IsQuery(ScriptA[j]) \/ ScriptA[j] = "fit")[i]),
             global |-> <<>>]]

Finished == pcA > Len(ScriptA) /\ pcB > Len(ScriptB)
Inv_C04_Isolation == Finished => outA = Solo
EmitDone == Finished => PrintT(ToJson([sched |-> sched]))
=============================================================================
