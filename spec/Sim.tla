-------------------------------- MODULE Sim --------------------------------
(***************************************************************************)
(* The offline Simulator of MABWiser.                                      *)
(*                                                                         *)
(* Part 1 - the protocol (C15).  For a data set of N rows, a test fraction,*)
(* an ordered or random split and a batch size, the Simulator is specified *)
(* as the sequence of PUBLIC API calls it stands for:                      *)
(*   offline: fit(train rows); predict(test rows)                          *)
(*            (context-free bandits: one predict() per test row)           *)
(*   online : per batch  predict(batch); read expectations;               *)
(*            partial_fit(batch)                                           *)
(* TLC enumerates the configurations and emits the scripts; the harness    *)
(* drives an identically configured bandit through each script and         *)
(* compares with what Simulator.run() reports.                             *)
(*                                                                         *)
(* Part 2 - the bookkeeping (C16).  Exact per-arm statistics, the split    *)
(* laws and the default evaluator are defined over rationals; TraceSim     *)
(* validates the public attributes of real Simulator runs against them.    *)
(***************************************************************************)
EXTENDS Integers, Sequences, FiniteSets, TLC, Json, Rat

CONSTANTS Ns, TestSizes, Batches, Orders,
          Scalers     \* subset of BOOLEAN: whether the Simulator is given a scaler for the contexts

---------------------------------------------------------------------------
(* split arithmetic; test sizes are dyadic rationals so that the float arithmetic of the code is exact *)
CeilDiv(a, b) == (a + b - 1) \div b
TestCount(n, ts, ordered) ==
    IF ordered THEN n - ((n * (ts[2] - ts[1])) \div ts[2])         \* train = int(n * (1 - test_size))
    ELSE CeilDiv(n * ts[1], ts[2])                                  \* sklearn: ceil(test_size * n)

(* the call script of one bandit: rows are test-set positions 1..T *)
RECURSIVE OnlineFrom(_, _, _)
OnlineFrom(start, T, B) ==
    IF start > T THEN <<>>
    ELSE LET stop == IF start + B - 1 > T THEN T ELSE start + B - 1
             rows == [i \in 1..(stop - start + 1) |-> start + i - 1]
         IN  <<[op |-> "predict", rows |-> rows], [op |-> "expectations", rows |-> rows],
               [op |-> "partial_fit", rows |-> rows]>> \o OnlineFrom(stop + 1, T, B)

Script0(T, B) ==
    IF B = 0 THEN <<[op |-> "fit_train"], [op |-> "predict", rows |-> [i \in 1..T |-> i]]>>
    ELSE <<[op |-> "fit_train"]>> \o OnlineFrom(1, T, B)
(* with a scaler the contexts are standardised ONCE, before anything is trained: the scaler is fitted on the training *)
(* rows only and then applied, unchanged, to the training rows and to every test row                                 *)
Script(T, B) == Script0(T, B)
ScriptOf(c, T) == IF c.scaled THEN <<[op |-> "scale_fit_on_train"]>> \o Script0(T, c.batch) ELSE Script0(T, c.batch)

VARIABLES cfg, emitted
vars == <<cfg, emitted>>

Configs == {c \in [n : Ns, ts : TestSizes, ordered : Orders, batch : Batches, scaled : Scalers] :
               /\ TestCount(c.n, c.ts, c.ordered) >= 1 /\ TestCount(c.n, c.ts, c.ordered) < c.n
               /\ c.batch <= CeilDiv(c.n * c.ts[1], c.ts[2])}        \* the constructor's own bound on batch_size

Init == cfg \in Configs /\ emitted = FALSE
Emit == /\ ~emitted /\ emitted' = TRUE /\ UNCHANGED cfg
        /\ PrintT(ToJson([n |-> cfg.n, ts |-> cfg.ts, ordered |-> cfg.ordered, batch |-> cfg.batch,
                          scaled |-> cfg.scaled, T |-> TestCount(cfg.n, cfg.ts, cfg.ordered),
                          script |-> ScriptOf(cfg, TestCount(cfg.n, cfg.ts, cfg.ordered))]))
Next == Emit

(* the scaler is fitted exactly once, on the training rows, before any bandit sees a context *)
Inv_C15_ScaleFirst ==
    LET s == ScriptOf(cfg, TestCount(cfg.n, cfg.ts, cfg.ordered)) IN
    /\ cfg.scaled => s[1].op = "scale_fit_on_train"
    /\ \A i \in DOMAIN s : s[i].op = "scale_fit_on_train" => (i = 1 /\ cfg.scaled)

(* every test row is predicted exactly once, in test order, and (online) learned after it was predicted *)
RECURSIVE CatRows(_)
CatRows(q) == IF q = <<>> THEN <<>> ELSE Head(q).rows \o CatRows(Tail(q))
PredRows(s) == CatRows(SelectSeq(s, LAMBDA e : e.op = "predict"))
Inv_C15_EachRowOnce ==
    LET T == TestCount(cfg.n, cfg.ts, cfg.ordered) IN PredRows(Script(T, cfg.batch)) = [i \in 1..T |-> i]
Inv_C15_LearnAfterPredict ==
    LET T == TestCount(cfg.n, cfg.ts, cfg.ordered)  s == Script(T, cfg.batch) IN
    \A i, j \in DOMAIN s :
        (s[i].op = "partial_fit" /\ s[j].op = "predict" /\ (\E r \in 1..T : r \in {s[i].rows[k] : k \in DOMAIN s[i].rows}
                                                                       /\ r \in {s[j].rows[k] : k \in DOMAIN s[j].rows}))
            => j < i

---------------------------------------------------------------------------
(* exact statistics *)
RangeS(s) == {s[i] : i \in DOMAIN s}
StatsOf(vals) ==        \* vals: sequence of rationals
    IF vals = <<>> THEN [count |-> 0]
    ELSE [count |-> Len(vals), sum |-> RSumSeq(vals), min |-> RMinSeq(vals), max |-> RMaxSeq(vals),
          mean |-> RDiv(RSumSeq(vals), R(Len(vals)))]
ArmVals(rows, a) == LET own == SelectSeq(rows, LAMBDA row : row.a = a) IN [i \in DOMAIN own |-> R(own[i].r)]
ArmStats(rows, a) == StatsOf(ArmVals(rows, a))

(* the value the default evaluator credits for test position i predicted as arm p *)
TrainStat(train, p, stat) ==
    LET st == ArmStats(train, p) IN
    IF st.count = 0 THEN RZero ELSE IF stat = "min" THEN st.min ELSE IF stat = "max" THEN st.max ELSE st.mean
Credit(testRows, train, preds, nb, i, stat) ==
    LET p == preds[i] IN
    IF p = testRows[i].a THEN R(testRows[i].r)
    ELSE IF nb # <<>> /\ nb[i][p][1] = 1
         THEN (IF stat = "min" THEN nb[i][p][2] ELSE IF stat = "max" THEN nb[i][p][4] ELSE nb[i][p][3])
         ELSE TrainStat(train, p, stat)
EvalArm(testRows, train, preds, nb, a, stat) ==
    LET idx == SelectSeq([i \in DOMAIN preds |-> i], LAMBDA i : preds[i] = a)
    IN  StatsOf([k \in DOMAIN idx |-> Credit(testRows, train, preds, nb, idx[k], stat)])
(* the neighbourhood statistics a Radius bandit reports for test position i: min / mean / max of the rewards of each arm *)
(* over the history rows within the radius (history = training rows, then the test rows of earlier batches)         *)
AbsI(v) == IF v < 0 THEN -v ELSE v
RECURSIVE DistFrom(_, _, _, _)
DistFrom(metric, x, y, j) ==
    IF j > Len(x) THEN 0
    ELSE LET dj == AbsI(x[j] - y[j])  rest == DistFrom(metric, x, y, j + 1)
         IN  IF metric = "cityblock" THEN dj + rest ELSE (IF dj > rest THEN dj ELSE rest)
HistoryAt(trainRows, testRows, i, B) ==
    IF B = 0 THEN trainRows ELSE trainRows \o SubSeq(testRows, 1, ((i - 1) \div B) * B)
NbStat(trainRows, testRows, i, B, metric, radius, a) ==
    LET near == SelectSeq(HistoryAt(trainRows, testRows, i, B),
                          LAMBDA row : row.a = a /\ DistFrom(metric, row.x, testRows[i].x, 1) <= radius)
        st == StatsOf([k \in DOMAIN near |-> R(near[k].r)])
    IN  IF st.count = 0 THEN <<0>> ELSE <<1, st.min, st.mean, st.max>>

(* online runs report the same analysis per batch: test positions lo..hi only (credited with the statistics of the *)
(* initial training rows and of each row's OWN neighbourhood)                                                    *)
EvalArmIn(testRows, train, preds, nb, a, stat, lo, hi) ==
    LET idx == SelectSeq([i \in DOMAIN preds |-> i], LAMBDA i : preds[i] = a /\ i >= lo /\ i <= hi)
    IN  StatsOf([k \in DOMAIN idx |-> Credit(testRows, train, preds, nb, idx[k], stat)])
=============================================================================
