"""Engine for spec/Nbhd.tla: exhaustive TLC runs (leg A) and trace validation of real executions (leg C)."""
import multiprocessing
import os
import random
import traceback

from harness import tlc
from harness.common import Machinery

INVS = ["Inv_C11_Tables", "Inv_C11_Union", "Inv_C11_Self", "Inv_C03_Self", "Inv_C03_KSetsExist", "Inv_C12_Leaves",
        "Inv_C08_Keys"]
PROPS = ["Prop_C10_ReadOnly", "Prop_C07_FitIsFresh"]


def xconsts(np_, lp="eg", **kw):
    c = dict(LP=lp, Thr={"a": 1, "b": 2, "c": 3}, Dev=set(), NP=np_, Labels={"a", "b"}, InitArms=["a", "b"],
             Rewards={1}, Ctx={(0, 0), (1, 0), (2, 0)}, Metric="cityblock", Radius=(1, 1), K=2, NTables=1, NSig=2,
             NCells=2, MaxBatch=2, MaxHist=3, MaxDepth=3,
             Ops={"fit", "partial_fit", "add_arm", "remove_arm", "predict_expectations"}, InitBin="none",
             NewBins={"keep"})
    c.update(kw)
    return c


def exhaustive(report, np_, tier, **kw):
    """Leg A: all histories and all geometries within small bounds."""
    over = dict(kw)
    if tier == "thorough":
        over.setdefault("MaxDepth", 4)
        over.setdefault("MaxHist", 4)
    result = tlc.run("Nbhd", xconsts(np_, **over), invariants=INVS, properties=PROPS, next_="NextX", workers=1,
                     timeout=1500)
    if result.violated:
        raise Machinery("specification error: %s violated in clean Nbhd model (%s)\n%s"
                        % (result.violated, np_, "\n".join(result.trace[:60])))
    report.add_tlc("Nbhd/%s-exhaustive" % np_, result, INVS, PROPS,
                   note="all histories x all geometries (signature / cell / leaf maps) on a 3-point grid")
    return result


def negative(report, np_, dev, expect, **kw):
    result = tlc.run("Nbhd", xconsts(np_, Dev={dev}, **kw), invariants=INVS, properties=PROPS, next_="NextX", workers=1,
                     timeout=900)
    report.states += result.states
    report.transitions += result.generated
    ok = result.violated is not None
    report.negatives.append({"deviation": dev, "np": np_, "expected_counterexample_to": expect,
                             "tlc_reported": result.violated, "ok": ok})
    if not ok:
        raise Machinery("deviation %s (%s) produced no counterexample" % (dev, np_))


def _job(spec):
    os.environ.setdefault("OMP_NUM_THREADS", "1")
    import warnings
    warnings.filterwarnings("ignore")
    from harness import nb
    out = {"name": spec["name"], "findings": [], "error": None, "traces": 0, "events": 0, "queries": 0,
           "accepted": 0, "samples": [], "compared": 0}
    try:
        cfg = nb.NbConfig(**spec["cfg"])
        rnd = random.Random(spec["seed"])
        recs = [nb.scenario(cfg, rnd, steps=spec.get("steps", 10)) for _ in range(spec["n"])]
        result, done, fails, oracles = nb.validate(cfg, recs)
        out["tlc"] = {"states": result.states, "generated": result.generated, "wall": result.wall}
        out["traces"] = len(recs)
        for tid, rec in enumerate(recs, 1):
            out["events"] += len(rec.events)
            out["queries"] += len(rec.queries)
            for f in rec.findings:
                out["findings"].append(f)
            if tid in done and tid not in fails:
                out["accepted"] += 1
            else:
                pos, clause = fails.get(tid, (None, "action.disabled"))
                event = rec.events[pos - 1] if pos and pos <= len(rec.events) else None
                out["findings"].append({"clause": "trace." + clause, "op": event["op"] if event else "?",
                                        "detail": "TLC rejects the recorded execution at event %s (%s): clause %s; "
                                                  "event %s" % (pos, event["op"] if event else "?", clause,
                                                                str(event)[:600]),
                                        "label": {"event": pos}, "path": rec.calls, "binding": cfg.describe(),
                                        "engine": "nb"})
            for clause, detail, where in nb.compare_queries(cfg, rec, tid, oracles):
                out["findings"].append({"clause": clause, "op": "query", "detail": detail, "label": where,
                                        "path": where.get("calls", rec.calls), "binding": cfg.describe(), "engine": "nb"})
            out["compared"] += sum(1 for q in rec.queries if (tid, q["event"]) in oracles)
            if len(out["samples"]) < 1 and len(rec.events) > 4:
                out["samples"].append({"engine": "recorded trace validated by TraceNbhd.tla", "config": cfg.describe(),
                                       "events": rec.events[:5]})
    except tlc.TLCError as error:
        out["error"] = "TLC: %s" % error
    except AttributeError as error:
        # the recorder reads the internal attributes named in the properties' anchors (table_to_plane, kmeans, arm_to_tree,
        # decisions ...); if a refactoring removed one the traces cannot be recorded: counted, never a violation
        frames = traceback.extract_tb(error.__traceback__)
        if frames and "/harness/" in frames[-1].filename:
            out["unavailable"] = "%s" % error
            out.setdefault("tlc", {"states": 0, "generated": 0, "wall": 0.0})
        else:
            out["error"] = traceback.format_exc()
    except Exception:  # noqa
        out["error"] = traceback.format_exc()
    return out


def run_jobs(report, jobs, keep, procs=None):
    procs = procs or min(len(jobs), os.cpu_count() or 2)
    ctx = multiprocessing.get_context("fork")
    with ctx.Pool(procs, maxtasksperchild=1) as pool:
        results = pool.map(_job, jobs, chunksize=1)
    for spec, out in zip(jobs, results):
        if out.get("error"):
            raise Machinery("nb job %s failed: %s" % (spec["name"], out["error"]))
        if out.get("unavailable"):
            report.count("nb.projection_unavailable")
            report.notes.append("projection unavailable for %s: %s" % (spec["name"], out["unavailable"]))
            continue
        t = out["tlc"]
        report.states += t["states"]
        report.transitions += t["generated"]
        report.tlc_runs.append({"model": "TraceNbhd/" + spec["name"], "mode": "trace validation",
                                "states": t["states"], "transitions": t["generated"], "traces": out["traces"],
                                "accepted": out["accepted"], "wall_s": round(t["wall"], 1)})
        report.traces += out["traces"]
        report.count("nb.events", out["events"])
        report.count("nb.queries", out["queries"])
        report.count("nb.queries_compared_with_tlc_oracle", out["compared"])
        report.count("nb.traces_accepted", out["accepted"])
        for sample in out["samples"]:
            if len(report.samples) < 6:
                report.samples.append(sample)
        for finding in out["findings"]:
            if keep(finding):
                report.findings.append(finding)
            else:
                report.count("nb.unrelated_mismatches")
    return results


def jobs_for(nps, lps, tier, seed, variants=None, n=None, steps=None):
    """Configurations x seeded scenario batches."""
    n = n or (40 if tier == "thorough" else 12)
    steps = steps or (14 if tier == "thorough" else 10)
    jobs = []
    for np_ in nps:
        for lp in lps:
            if np_ == "tree" and lp not in ("eg", "ucb1", "ts"):
                continue
            for i, var in enumerate(variants[np_] if variants else [{}]):
                cfg = dict(np_=np_, lp=lp)
                cfg.update(var)
                if lp == "ts":
                    cfg["unit"] = 1
                if np_ == "tree" and (lp == "ts" or (lp == "eg" and cfg.get("epsilon", 0) > 0)):
                    # leaf policies share the bandit's main generator between the worker threads (known finding F7,
                    # decided by C05): with several threads a run is not reproducible, so these scenarios run with one job
                    cfg["n_jobs"] = 1
                    cfg["backend"] = None
                jobs.append({"name": "%s-%s-%d" % (np_, lp, i), "cfg": cfg, "seed": seed * 1000 + len(jobs), "n": n,
                             "steps": steps})
    return jobs
