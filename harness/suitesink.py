"""Sink for the guarded hooks while the repository's own test-suite runs: records every outermost public call on a
MAB object with the abstract state before and after it (for spec/TraceLife.tla)."""
import json
import os
import threading

_local = threading.local()
_handles = {}
_counters = {}
_next = [0]
PUBLIC = ("fit", "partial_fit", "predict", "predict_expectations", "add_arm", "remove_arm", "warm_start")


def _label(arm):
    arm = arm.item() if hasattr(arm, "item") else arm
    return repr(arm)


def _abstract(mab):
    imp = getattr(mab, "_imp", None)
    nrows = -1
    dec = getattr(imp, "decisions", None)
    if dec is not None and hasattr(imp, "contexts") and type(imp).__module__.startswith("mabwiser"):
        try:
            nrows = int(len(dec))
        except TypeError:
            nrows = -1
    return {"arms": [_label(a) for a in mab.arms], "fitted": bool(getattr(mab, "_is_initial_fit", False)), "nrows": nrows}


def _rows(value):
    if value is None:
        return 0
    try:
        return int(len(value))
    except TypeError:
        return -1


def emit(event):
    name = event["name"]
    if not name.startswith("MAB."):
        return
    op = name[4:]
    if op not in PUBLIC:
        return
    depth = getattr(_local, "depth", 0)
    phase = event["phase"]
    if phase == "begin":
        _local.depth = depth + 1
        if depth == 0:
            _local.pre = _abstract(event["obj"])
        return
    _local.depth = depth - 1
    if depth != 1:
        return
    directory = os.environ.get("MABWISER_VERIF_DIR")
    if not directory:
        return
    mab = event["obj"]
    args, kwargs = event["args"], event["kwargs"]
    pre = _local.pre
    post = _abstract(mab)
    key = id(mab)
    state = _counters.get(key)
    if state is None or state["post"] != pre:
        _next[0] += 1
        state = {"counter": max(pre["nrows"], 0), "post": pre, "trace": _next[0], "new": True}
        _counters[key] = state
    rec = {"trace": state["trace"], "new": state.pop("new", False), "op": op, "out": "ok" if phase == "end" else type(event["error"]).__name__,
           "pre": pre, "post": post}
    if op in ("fit", "partial_fit"):
        decisions = args[0] if args else kwargs.get("decisions")
        k = _rows(decisions)
        rec["k"] = k
        rec["o"] = state["counter"] if (op == "fit" or not pre["fitted"]) and not (op == "partial_fit" and not pre["fitted"]) else 0
        if op == "partial_fit" and not pre["fitted"]:
            rec["o"] = 0
        if phase == "end" and k > 0:
            if op == "partial_fit" and not pre["fitted"]:
                state["counter"] = k
            elif op == "fit":
                state["counter"] = state["counter"] + k
            else:
                state["counter"] = state["counter"] + k
    elif op in ("add_arm", "remove_arm"):
        arm = args[0] if args else kwargs.get("arm")
        rec["arm"] = _label(arm)
    elif op in ("predict", "predict_expectations"):
        contexts = args[0] if args else kwargs.get("contexts")
        rec["m"] = _rows(contexts)
        if type(contexts).__name__ == "Series":
            rec["m"] = -1            # a Series is one row or one column depending on the model (Orient.tla): not judged here
        if phase == "end":
            result = event["result"]
            is_list = isinstance(result, list)
            items = result if is_list else [result]
            if op == "predict":
                rec["res"] = {"n": len(items), "list": is_list, "arms": [_label(a) for a in items], "keys": []}
            else:
                rec["res"] = {"n": len(items), "list": is_list, "arms": [],
                              "keys": [[_label(k) for k in item.keys()] if isinstance(item, dict) else ["?"] for item in items]}
    state["post"] = post
    pid = os.getpid()
    handle = _handles.get(pid)
    if handle is None:
        handle = open(os.path.join(directory, "suite_%d.jsonl" % pid), "a")
        _handles[pid] = handle
    handle.write(json.dumps(rec) + "\n")
    handle.flush()
