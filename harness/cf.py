"""Binding between spec/Mab.tla (context-free life cycle) and the real library, and the replay engine
that executes every TLC-emitted edge on a real MAB object (leg B).

One real object is kept per distinct specification state (the first one that reaches it along TLC's
breadth-first order).  For every edge the object of the source state is deep-copied, the concrete call
derived from the edge label is made, and
  * the projection of the object is compared with the target state            (state.*)
  * the return value is compared with the result descriptor                   (result.*)
  * on fit edges the object is compared with a freshly constructed bandit     (fresh.*)     C07
  * when the target state is already known the two objects are compared       (confluence)  C06
  * on query edges nothing but the random stream may have moved               (readonly.*)  C10
  * on predict edges the arm is the first maximiser of the expectations       (argmax.*)    C09
  * on reject edges the call must raise and leave everything unchanged        (reject.*)    C17
  * at new states deep copies and pickles must be indistinguishable           (clone.*)     C19
Findings carry the call path from construction so that they can be replayed.
"""
import copy
import itertools
import json
import math
import pickle
from fractions import Fraction

import numpy as np

from harness import binarizers, terms
from harness.snap import snapshot, diff, same

EPS = float(np.finfo(float).eps)

LABEL_MAPS = {
    "int": {"a": 10, "b": 20, "c": 5, "d": 7},          # arm order differs from sorted order
    "str": {"a": "m", "b": "mz", "c": "b", "d": "bdd"},   # different lengths; cut to one character b becomes a, d becomes c
    "float": {"a": 1.5, "b": 0.5, "c": 2.5, "d": 0.25},
    "int0": {"a": 0, "b": -1, "c": 5, "d": 7},            # 0 is a legal arm label like any other
}


class Finding(dict):
    pass


def _mab_module():
    from mabwiser import mab as mab_module
    return mab_module


class CFBinding:
    """Concrete reading of the abstract calls of Mab.tla."""

    def __init__(self, lp, labelmap="int", unit=1, dtype="float", seed=7, alpha=1.25, tau=2, epsilon=0.0,
                 thr=None, n_jobs=1, backend=None, container="ndarray"):
        self.lp = lp
        self.lmname = labelmap
        self.lm = dict(LABEL_MAPS[labelmap])
        self.inv = {v: k for k, v in self.lm.items()}
        self.unit = Fraction(unit)
        self.dtype = dtype
        self.seed = seed
        self.alpha = alpha
        self.tau = tau
        self.epsilon = epsilon
        self.thr = thr or {"a": 1, "b": 2, "c": 3, "d": 1}
        self.n_jobs = n_jobs
        self.backend = backend
        self.container = container
        self._feats = {}
        binarizers.configure({self.lm[k]: float(v * self.unit) for k, v in self.thr.items()}, float(self.unit))

    def describe(self):
        return {"lp": self.lp, "labels": self.lmname, "unit": str(self.unit), "dtype": self.dtype, "seed": self.seed,
                "alpha": self.alpha, "tau": self.tau, "epsilon": self.epsilon, "n_jobs": self.n_jobs,
                "backend": self.backend, "container": self.container}

    def skip(self):
        return skip_for(self.lp)

    def probe_labels(self, mab, full):
        first = self.spec_label(mab.arms[0])
        last = self.spec_label(mab.arms[-1])
        q = [{"op": "predict_expectations", "m": 2}, {"op": "predict", "m": 2}, {"op": "cold_arms"}]
        if not full:
            return [q]
        return [q,
                [{"op": "warm_start", "q": [1, 2]}, {"op": "cold_arms"}] + q,
                [{"op": "partial_fit", "batch": [{"a": first, "r": 1}]}] + q,
                [{"op": "add_arm", "arm": "d"}] + q + [{"op": "partial_fit", "batch": [{"a": "d", "r": 1}]}] + q,
                [{"op": "remove_arm", "arm": first}] + q,
                [{"op": "fit", "batch": [{"a": last, "r": 1}]}] + q + [{"op": "warm_start", "q": [1, 1]}] + q]

    # ---- construction -------------------------------------------------
    def policy(self, bin_name="none"):
        LP = _mab_module().LearningPolicy
        if self.lp == "eg":
            return LP.EpsilonGreedy(epsilon=self.epsilon)
        if self.lp == "ucb1":
            return LP.UCB1(alpha=self.alpha)
        if self.lp == "softmax":
            return LP.Softmax(tau=self.tau)
        if self.lp == "pop":
            return LP.Popularity()
        if self.lp == "ts":
            return LP.ThompsonSampling(binarizers.BY_NAME[bin_name])
        if self.lp == "random":
            return LP.Random()
        raise ValueError(self.lp)

    def new(self, arms, bin_name="none"):
        MAB = _mab_module().MAB
        given = [self.lm[a] for a in arms]
        mab = MAB(given, self.policy(bin_name), seed=self.seed, n_jobs=self.n_jobs, backend=self.backend)
        self.given_arms = (given, list(given), mab)
        return mab

    # ---- arguments ------------------------------------------------------
    def reward(self, r):
        value = r * self.unit
        if self.dtype in ("int", "uint8", "int16", "bool") and value.denominator == 1:
            return int(value)
        return float(value)

    def batch(self, rows):
        decisions = [self.lm[row["a"]] for row in rows]
        rewards = [self.reward(row["r"]) for row in rows]
        if self.container == "list":
            return decisions, rewards
        if self.container == "series":
            import pandas as pd
            return pd.Series(decisions), pd.Series(rewards)
        if self.dtype in ("uint8", "int16"):
            return np.asarray(decisions), np.asarray(rewards, dtype=self.dtype)      # narrow integer rewards: sums must not wrap
        if self.dtype == "bool" and all(r in (0, 1) for r in rewards):
            return np.asarray(decisions), np.asarray(rewards, dtype=bool)        # a bool array can only carry 0 / 1
        return np.asarray(decisions), np.asarray(rewards)

    def contexts(self, m):
        if m == 0:
            return None
        return [[1.0, 2.0]] * m

    def features(self, feat):
        return {self.lm[a]: list(v) for a, v in feat.items()}

    # ---- calls ----------------------------------------------------------
    def call(self, mab, label, feat=None):
        """Performs the call of an edge label; returns (outcome, value)."""
        op = label["op"]
        try:
            if op == "fit":
                d, r = self.batch(label["batch"])
                return "ok", mab.fit(d, r)
            if op == "partial_fit":
                d, r = self.batch(label["batch"])
                return "ok", mab.partial_fit(d, r)
            if op == "add_arm":
                nb = label.get("bin", "keep")
                if nb == "keep":
                    return "ok", mab.add_arm(self.lm[label["arm"]])
                return "ok", mab.add_arm(self.lm[label["arm"]], binarizers.BY_NAME[nb])
            if op == "remove_arm":
                return "ok", mab.remove_arm(self.lm[label["arm"]])
            if op == "warm_start":
                q = terms.frac(label["q"])
                fmap = feat[label.get("fs", 1) - 1] if isinstance(feat, list) else feat
                # the caller keeps ONE feature dictionary and updates it in place between calls
                self._feats.clear()
                self._feats.update({self.lm[a]: list(v) for a, v in fmap.items() if self.lm[a] in mab.arms})
                return "ok", mab.warm_start(self._feats, float(q))
            if op == "predict":
                return "ok", mab.predict(self.contexts(label["m"]))
            if op == "predict_expectations":
                return "ok", mab.predict_expectations(self.contexts(label["m"]))
            if op == "reject":
                return self.reject(mab, label["kind"], feat)
        except Exception as error:  # noqa: the outcome is what is being checked
            return type(error).__name__, error
        raise ValueError("unknown op %r" % (op,))

    # fault classes: kind -> (callable(mab), acceptable exception classes)
    def reject(self, mab, kind, feat):
        arms = list(mab.arms)
        first = arms[0]
        unknown = [v for v in self.lm.values() if v not in arms] + [{"int": 777, "int0": 777, "str": "zz", "float": 77.5}[self.lmname]]
        good_r = self.reward(1) if self.lp != "ts" else 1
        feats = {a: [1.0, 0.0] for a in arms}
        table = {
            "fit_len_mismatch": lambda: mab.fit([first, first], [good_r]),
            "pfit_len_mismatch": lambda: mab.partial_fit([first], [good_r, good_r]),
            "fit_bad_type": lambda: mab.fit("ab", [good_r, good_r]),
            "pfit_rewards_type": lambda: mab.partial_fit([first], 1.0),
            "fit_nan_reward": lambda: mab.fit([first, first], [good_r, float("nan")]),
            "pfit_nan_reward": lambda: mab.partial_fit([first, first], [good_r, float("nan")]),
            "pfit_inf_reward": lambda: mab.partial_fit([first], [float("inf")]),
            "pfit_none_reward": lambda: mab.partial_fit([first], [None]),
            "fit_contexts_superfluous": lambda: mab.fit([first], [good_r], [[1.0, 2.0]]),
            "pfit_contexts_superfluous": lambda: mab.partial_fit([first], [good_r], [[1.0, 2.0]]),
            "ts_nonbinary": lambda: mab.partial_fit([first, first], [1, 2]),
            "add_duplicate": lambda: mab.add_arm(first),
            "add_none": lambda: mab.add_arm(None),
            "add_nan": lambda: mab.add_arm(np.nan),
            "add_inf": lambda: mab.add_arm(np.inf),
            "add_binarizer_non_ts": lambda: mab.add_arm(unknown[0], binarizers.flip),
            "add_binarizer_not_callable": lambda: mab.add_arm(unknown[0], "not a function"),
            "remove_unknown": lambda: mab.remove_arm(unknown[0]),
            "remove_none": lambda: mab.remove_arm(None),
            "ws_not_dict": lambda: mab.warm_start([1, 2], 0.5),
            "ws_quantile_type": lambda: mab.warm_start(feats, 1),
            "ws_quantile_range": lambda: mab.warm_start(feats, 1.5),
            "ws_arms_mismatch": lambda: mab.warm_start({first: [1.0, 0.0]} if len(arms) > 1 else {}, 0.5),
            "ws_all_zero_features": lambda: mab.warm_start({a: [0.0, 0.0] for a in arms}, 0.5),
            "predict_unfitted": lambda: mab.predict(),
            "predict_exp_unfitted": lambda: mab.predict_expectations(),
            "predict_bad_context_type": lambda: mab.predict("abc"),
            "predict_1d_context": lambda: mab.predict_expectations([1.0, 2.0]),
        }
        try:
            value = table[kind]()
        except Exception as error:  # noqa
            return type(error).__name__, error
        return "ok", value

    # ---- projection and comparison -----------------------------------
    def spec_label(self, arm):
        return self.inv.get(arm, "?%r" % (arm,))

    def expected_value(self, term):
        if self.lp in ("eg", "pop"):
            if self.lp == "pop":
                return float(terms.frac(term))
            return terms.mean_value(term, self.unit)
        if self.lp == "ucb1":
            return terms.ucb1_value(term, self.unit, self.alpha)
        if self.lp == "softmax":
            return terms.softmax_value(term, self.unit, self.tau)
        return None

    def compare_state(self, mab, state):
        """Mismatches between the real object and a specification state: list of (clause, detail)."""
        out = []
        imp = mab._imp
        arms = [self.spec_label(a) for a in mab.arms]
        if arms != state["arms"]:
            out.append(("state.arms", "arms %s, spec %s" % (arms, state["arms"])))
            return out
        if list(imp.arms) != list(mab.arms):
            out.append(("state.keys", "policy arm list %s differs from MAB.arms %s" % (imp.arms, mab.arms)))
        if bool(mab._is_initial_fit) != bool(state["fitted"]):
            out.append(("state.fitted", "fitted %s, spec %s" % (mab._is_initial_fit, state["fitted"])))
        for name, value in vars(imp).items():
            if name.startswith("arm_to_") and isinstance(value, dict):
                if list(value.keys()) != list(mab.arms):
                    out.append(("state.keys", "%s has keys %s, arms are %s" % (name, list(value.keys()), list(mab.arms))))
        if any(c == "state.keys" for c, _ in out):
            return out
        exact = self.lp in ("eg",)
        for label, arm in zip(arms, mab.arms):
            sacc = state["acc"][label]
            if self.lp == "ts":
                got = (imp.arm_to_success_count[arm], imp.arm_to_fail_count[arm])
                if not (got[0] == sacc["s"] and got[1] == sacc["f"]):
                    out.append(("state.acc", "arm %s: (successes+1, failures+1) = %s, spec (%s, %s)"
                                % (label, got, sacc["s"], sacc["f"])))
            elif self.lp != "random":
                got = (imp.arm_to_sum[arm], imp.arm_to_count[arm])
                want = (float(sacc["s"] * self.unit), sacc["n"])
                if not (got[0] == want[0] and got[1] == want[1]):
                    out.append(("state.acc", "arm %s: (sum, count) = %s, spec %s" % (label, got, want)))
            if self.lp in ("eg", "ucb1", "softmax", "pop") and (state["fitted"] or self.lp in ("softmax",)):
                want = self.expected_value(state["expv"][label])
                got = imp.arm_to_expectation[arm]
                ok = (got == want) if exact else terms.close(float(got), want, 1e-12, 1e-15)
                if not ok:
                    out.append(("state.expv", "arm %s: stored expectation %r, documented value %r (term %s)"
                                % (label, got, want, json.dumps(state["expv"][label]))))
            sst = state["status"][label]
            rst = imp.arm_to_status[arm]
            by = rst["warm_started_by"]
            got = (bool(rst["is_trained"]), bool(rst["is_warm"]), "none" if by is None else self.spec_label(by))
            want = (sst["tr"], sst["wm"], sst["by"])
            if got != want and self.lp != "random":
                out.append(("state.status", "arm %s: (trained, warm, by) = %s, spec %s" % (label, got, want)))
        if self.lp == "ucb1" and state["fitted"] and imp.total_count != state["total"]:
            out.append(("state.total", "total_count %s, spec %s" % (imp.total_count, state["total"])))
        if self.lp == "ts":
            got = binarizers.NAME_OF.get(imp.binarizer, "?")
            if got != state["bin"]:
                out.append(("state.bin", "binarizer %s, spec %s" % (got, state["bin"])))
        if not state["fitted"] or self.lp == "random":
            cold = list(state["arms"])
        else:
            cold = [a for a in state["arms"] if not state["status"][a]["tr"] and not state["status"][a]["wm"]]
        got = [self.spec_label(a) for a in mab.cold_arms]
        if got != cold and self.lp != "random":
            out.append(("state.cold_arms", "cold_arms %s, spec %s" % (got, cold)))
        return out

    # ---- the documented sampler on a clone of the generator -------------
    def sample(self, mab, m):
        """What predict_expectations must return from the bandit's current stream position."""
        imp = mab._imp
        gen = copy.deepcopy(mab._rng)
        size = 1 if m == 0 else m
        arms = list(mab.arms)
        if self.lp == "ucb1" or (self.lp == "eg" and self.epsilon == 0):
            rows = [dict(imp.arm_to_expectation) for _ in range(size)]
            variants = [rows]
        elif self.lp == "eg":
            if size == 1:
                if gen.rand() < self.epsilon:
                    rows = [dict((arm, gen.rand()) for arm in arms)]
                else:
                    rows = [dict(imp.arm_to_expectation)]
            else:
                prob = gen.rand(size)
                rnd = gen.rand((size, len(arms)))
                rows = [dict(zip(arms, rnd[i])) if prob[i] < self.epsilon else dict(imp.arm_to_expectation)
                        for i in range(size)]
            variants = [rows]
        elif self.lp in ("softmax", "pop"):
            alpha = [imp.arm_to_expectation[a] + EPS for a in arms]
            draws = gen.dirichlet(alpha, size)
            variants = [[dict(zip(arms, row)) for row in draws]]
        elif self.lp == "ts":
            variants = []
            for order in itertools.permutations(arms):      # the order of the per-arm draws is not documented
                g = copy.deepcopy(mab._rng)
                beta = {a: g.beta(imp.arm_to_success_count[a], imp.arm_to_fail_count[a], size) for a in order}
                variants.append([{a: beta[a][i] for a in arms} for i in range(size)])
        elif self.lp == "random":
            draws = gen.rand((size, len(arms)))
            variants = [[dict(zip(arms, row)) for row in draws]]
        else:
            raise ValueError(self.lp)
        return variants


def first_argmax(arms, row):
    best = None
    for arm in arms:
        value = row[arm]
        if best is None or value > row[best]:
            best = arm
    return best


def rows_of(value, m):
    """Normalises a query result to a list of rows; returns (rows, shape_ok)."""
    if m <= 1:
        return [value], not isinstance(value, list)
    return (value if isinstance(value, list) else [value]), isinstance(value, list) and len(value) == m


_BOTH = ("TypeError", "ValueError")
REJECT_CLASSES = {kind: _BOTH for kind in (
    "fit_len_mismatch", "pfit_len_mismatch", "fit_bad_type", "pfit_rewards_type", "fit_nan_reward", "pfit_nan_reward",
    "pfit_inf_reward", "pfit_none_reward", "fit_contexts_superfluous", "pfit_contexts_superfluous", "ts_nonbinary",
    "add_duplicate", "add_none", "add_nan", "add_inf", "add_binarizer_non_ts", "add_binarizer_not_callable",
    "remove_unknown", "remove_none", "ws_not_dict", "ws_quantile_type", "ws_quantile_range", "ws_arms_mismatch")}
REJECT_CLASSES.update({
    "ws_all_zero_features": ("IndexError", "ValueError"), "predict_unfitted": ("Exception",),
    "predict_exp_unfitted": ("Exception",), "predict_bad_context_type": ("TypeError", "ValueError", "Exception"),
    "predict_1d_context": ("TypeError", "ValueError", "Exception"),
})

# observation-only attributes: Thompson Sampling caches its last draw in arm_to_expectation
def skip_for(lp):
    return ("arm_to_expectation",) if lp == "ts" else ()


ALL_CHECKS = ("state", "result", "fresh", "confluence", "readonly", "argmax", "reject", "clone", "shape")


class Replay:
    def __init__(self, binding, feat=None, checks=ALL_CHECKS, max_findings=25, clone_every=1):
        self.b = binding
        self.feat = feat or {}
        self.checks = set(checks)
        self.max_findings = max_findings
        self.clone_every = clone_every
        self.findings = []
        self.stats = {"edges": 0, "states": 0, "confluent": 0, "fresh": 0, "queries": 0, "rejects": 0, "clones": 0,
                      "orphans": 0, "ops": {}, "ambiguous": 0}
        self.objs = {}
        self.parent = {}
        self.samples = []
        self.current = None
        self.pure = {}
        self.fits = {}
        self.sig_counts = {}
        self.outputs = []
        self.record_outputs = False
        self.caller_check = False

    def key(self, state):
        return json.dumps(state, sort_keys=True)

    def trace(self, skey):
        if skey == "__path__":
            return list(getattr(self, "_trail", None) or [])
        edges = []
        while skey in self.parent and self.parent[skey] is not None:
            skey, edge = self.parent[skey]
            edges.append(edge)
        return list(reversed(edges))

    def path(self, skey):
        return [edge["l"] for edge in self.trace(skey)]

    def report(self, clause, detail, skey, label):
        # repeated occurrences of one kind of mismatch are counted, only the first few are kept,
        # so that a known finding cannot crowd out a different violation
        import re as _re
        tag = _re.search(r"\[(\w+)\]\s*$", detail)
        sig = (clause, label.get("op"), tag.group(1) if tag else "")
        self.sig_counts[sig] = self.sig_counts.get(sig, 0) + 1
        if self.sig_counts[sig] > 3:
            return
        trace = self.trace(skey)
        if self.current is not None and (not trace or trace[-1] is not self.current):
            trace = trace + [self.current]
        self.findings.append(Finding(clause=clause, detail=detail, op=label.get("op"), label=label,
                                     path=[edge["l"] for edge in trace[:-1]], trace=trace,
                                     binding=self.b.describe()))

    def run(self, edges):
        b = self.b
        skip = b.skip()
        if not edges:
            return self
        init = edges[0]["s"]
        ikey = self.key(init)
        obj = b.new(init["arms"], init.get("bin", "none"))
        self.objs[ikey] = obj
        self.parent[ikey] = None
        self.stats["states"] = 1
        for clause, detail in self.safe_compare(obj, init):
            self.report(clause, detail, ikey, {"op": "init"})
        for edge in edges:
            if len(self.sig_counts) >= self.max_findings:
                break
            skey = self.key(edge["s"])
            src = self.objs.get(skey)
            if src is None:
                self.stats["orphans"] += 1
                continue
            label = edge["l"]
            op = label["op"]
            self.current = edge
            self.stats["edges"] += 1
            self.stats["ops"][op] = self.stats["ops"].get(op, 0) + 1
            obj = copy.deepcopy(src)
            tkey = self.key(edge["t"])
            need_before = op in ("predict", "predict_expectations", "reject")
            before_rng = copy.deepcopy(obj) if need_before and op == "reject" else None
            before = snapshot(obj, rng=False, skip=skip) if need_before else None
            twin = copy.deepcopy(obj) if op in ("predict", "predict_expectations", "fit") else None
            outcome, value = b.call(obj, label, self.feat)
            if op == "reject":
                self.stats["rejects"] += 1
                if "reject" in self.checks:
                    self.check_reject(obj, label, outcome, value, before_rng, skey)
                if "state" in self.checks and outcome != "skip":
                    # the specification state is unchanged by a rejected call: arms, keys, ... must still project to it
                    for clause, detail in self.safe_compare(obj, edge["s"]):
                        self.report(clause, detail + " (after the rejected call %s)" % label.get("kind"), skey, label)
                continue
            if outcome != "ok":
                self.report("call.exception", "%s raised %s: %s" % (op, outcome, value), skey, label)
                continue
            if "state" in self.checks:
                for clause, detail in self.safe_compare(obj, edge["t"]):
                    self.report(clause, detail, skey, label)
            if op in ("predict", "predict_expectations"):
                self.stats["queries"] += 1
                self.check_query(obj, twin, label, value, before, skey, skip)
                if self.record_outputs:
                    extra = b.extra_output(obj) if hasattr(b, "extra_output") else None
                    self.outputs.append((self.stats["edges"], (op, self.canon(value), self.canon(extra) if extra is not None else None)))
            if self.caller_check and op in ("fit", "partial_fit", "predict", "predict_expectations", "warm_start"):
                changed = b.caller_changed() if hasattr(b, "caller_changed") else None
                if changed:
                    self.report("caller.modified", "%s modified an object passed by the caller: %s" % (op, changed), skey, label)
            if op == "fit" and "fresh" in self.checks:
                self.check_fresh(obj, twin, edge, label, skey)
            if "locality" in self.checks and op == "partial_fit" and edge["s"].get("fitted") and hasattr(b, "independent_arms"):
                self.check_locality(src, obj, label, skey)
            if "argmax" in self.checks and op in ("warm_start", "add_arm", "remove_arm", "partial_fit", "fit") \
                    and edge["s"].get("fitted") and edge["t"].get("fitted"):
                self.check_predict_around(src, label, skey)
            known = self.objs.get(tkey)
            pure = self.pure.get(skey, True) and op in ("fit", "partial_fit", "predict", "predict_expectations")
            nfits = self.fits.get(skey, 0) + (1 if op == "fit" or (op == "partial_fit" and not edge["s"]["fitted"]) else 0)
            if getattr(b, "single_fit_confluence", False) and nfits > 1:
                pure = False          # a second fit starts from another stream position (new hyperplanes)
            if not getattr(b, "confluence_ok", True):
                pure = False
            if known is None:
                if "_queried" in edge:
                    want_query = edge["_queried"]
                elif getattr(self, "query_after", None):
                    want_query = op in self.query_after       # e.g. after training only: what a query remembers must
                else:                                           # survive whole chains of arm changes
                    want_query = self.stats["states"] % 2 == 1
                edge["_queried"] = bool(want_query and edge["t"].get("fitted"))      # kept in replay files
                if edge["_queried"]:
                    # queries are self-loops of the specification, so an object that has answered queries represents the
                    # state just as well: every second representative is a queried one, so that continuations (arm
                    # changes, training, warm start) are also exercised on bandits that predicted before
                    try:
                        if "X" in (edge["l"] if op in ("predict", "predict_expectations") else {}):
                            raise KeyError
                        for q in ({"op": "predict", "m": 1}, {"op": "predict_expectations", "m": 3}):
                            b.call(obj, q, self.feat)          # through the binding: same containers as every other query
                        self.stats["queried_representatives"] = self.stats.get("queried_representatives", 0) + 1
                    except Exception:  # noqa
                        try:
                            obj.predict(self.ctx(1, obj))
                            obj.predict_expectations(self.ctx(3, obj))
                        except Exception:  # noqa
                            pass
                self.objs[tkey] = obj
                self.pure[tkey] = pure
                self.fits[tkey] = nfits
                self.parent[tkey] = (skey, edge)
                self.stats["states"] += 1
                if "clone" in self.checks and self.stats["states"] % self.clone_every == 0:
                    try:
                        self.check_clone(obj, tkey, label, skip)
                    except Exception as error:  # noqa: a library call on a copy failed - that is a result, not a harness error
                        self.report("clone.exception", "a call on a copy of the bandit raised %s: %s"
                                    % (type(error).__name__, error), tkey, label)
                if len(self.samples) < 3 and len(self.path(tkey)) >= 3:
                    self.samples.append({"path": self.path(tkey), "state": edge["t"]})
            elif tkey != skey and "confluence" in self.checks and pure and self.pure.get(tkey, False):
                # C06: different chunkings of the same rows (fit / partial_fit only) must give identical objects
                self.stats["confluent"] += 1
                changed = self.observably_different(obj, known, False, skip)
                if changed:
                    self.report("confluence.snapshot",
                                "two call sequences reach the same documented state but different objects: %s; other path %s"
                                % (changed, json.dumps(self.path(tkey))), skey, label)
        self.flush_fresh()
        return self

    def flush_fresh(self):
        """C19: the queued pickles are restored by another interpreter, which repeats the recorded continuation."""
        queue, self.fresh_queue = getattr(self, "fresh_queue", []), []
        if not queue:
            return
        from harness import fresh
        results = fresh.other_interpreter([item for item, _, _, _ in queue])
        for (item, want, tkey, label), got in zip(queue, results):
            self.stats["fresh_interpreter"] = self.stats.get("fresh_interpreter", 0) + 1
            if isinstance(got, str):
                self.report("clone.restore", "a pickle (protocol %d) of the bandit cannot be restored in another interpreter: %s"
                            % (item["protocol"], got), tkey, label)
            elif not same(got, want):
                self.report("clone.other_interpreter", "a pickle (protocol %d) restored in another interpreter answers the "
                            "continuation with %s, the original with %s" % (item["protocol"], _fmt(got), _fmt(want)), tkey, label)

    def run_paths(self, edges):
        """Simulation behaviours executed as PATHS: one real object per behaviour, never copied between its calls, with
        the caller-owned containers of the binding reused from call to call.  State is compared after every step.  This
        is where state that survives only on the same object across calls (caches keyed on identity, references to caller
        objects) shows, which the edge-wise replay (a fresh deep copy per edge) cannot see."""
        b = self.b
        skip = b.skip()
        if not edges:
            return self
        init_key = self.key(edges[0]["s"])
        obj, prev, trail, sibling, given, last_label = None, None, [], None, None, None
        for edge in edges:
            if len(self.sig_counts) >= self.max_findings:
                break
            skey = self.key(edge["s"])
            if skey == init_key and (obj is None or prev != skey):
                self.finish_path(obj, last_label)
                obj, trail = b.new(edge["s"]["arms"], edge["s"].get("bin", "none")), []
                # a second bandit built from the caller's very same list of arms: its arms are its own (C08, C04)
                sibling, given = None, getattr(b, "given_arms", None)
                if given is not None and given[2] is obj and "shape" in self.checks:
                    try:
                        sibling = type(obj)(given[0], obj.learning_policy, obj.neighborhood_policy, seed=3)
                    except Exception:  # noqa
                        sibling = None
            elif obj is None or prev != skey:
                self.finish_path(obj, last_label)
                obj = None
                continue
            label = edge["l"]
            last_label = label
            op = label["op"]
            self.current = edge
            self.parent["__path__"] = None
            self.stats["path_edges"] = self.stats.get("path_edges", 0) + 1
            trail.append(edge)
            self._trail = list(trail)
            if op == "reject":
                before = copy.deepcopy(obj)
                outcome, value = b.call(obj, label, self.feat)
                if outcome not in ("ok", "skip"):
                    changed = self.observably_different(obj, before, True, skip)
                    if changed:
                        self.report("reject.changed", "rejected call %s (%s) changed the bandit: %s" % (label["kind"], outcome, changed),
                                    "__path__", label)
                prev = skey
                continue
            twin = copy.deepcopy(obj) if op in ("predict", "predict_expectations") else None
            before = snapshot(obj, rng=False, skip=skip) if twin is not None else None
            outcome, value = b.call(obj, label, self.feat)
            if outcome != "ok":
                self.report("call.exception", "%s raised %s: %s" % (op, outcome, value), "__path__", label)
                obj = None
                continue
            for clause, detail in self.safe_compare(obj, edge["t"]):
                self.report(clause, detail + " (same object through the whole call sequence)", "__path__", label)
            if twin is not None:
                self.check_query(obj, twin, label, value, before, "__path__", skip)
            if sibling is not None and list(sibling.arms) != given[1]:
                self.report("shape.sibling", "%s on one bandit changed the arms of a second bandit constructed from the same "
                            "list object: %r, constructed with %r" % (op, list(sibling.arms), given[1]), "__path__", label)
                sibling = None
            prev = self.key(edge["t"])
        self.finish_path(obj, last_label)
        self._trail = None
        return self

    def finish_path(self, obj, label):
        """C19 at the end of a path: the object that lived through the whole call sequence (never copied, its training
        arrays still the caller's own objects) against a deep copy and a pickle of it, each running the long continuation."""
        if obj is None or label is None or "clone" not in self.checks or not getattr(obj, "_is_initial_fit", False):
            return
        self.stats["path_clones"] = self.stats.get("path_clones", 0) + 1
        try:
            clones = [("deepcopy", copy.deepcopy(obj)), ("pickle", pickle.loads(pickle.dumps(obj, protocol=4)))]
            want = self.probe_inplace(obj)
            for how, clone in clones:
                got = self.probe_inplace(clone)
                if not same(got, want):
                    self.report("clone.path", "%s of a bandit at the end of a call sequence answers the continuation with %s, the "
                                "bandit itself with %s" % (how, _fmt(got), _fmt(want)), "__path__", label)
                    break
        except Exception as error:  # noqa
            self.report("clone.exception", "copying at the end of a call sequence raised %s: %s" % (type(error).__name__, error),
                        "__path__", label)

    def ctx(self, m, mab):
        try:
            return self.b.contexts(m, mab)
        except TypeError:
            return self.b.contexts(m)

    def safe_compare(self, obj, state):
        """The projection reads internal attributes named in the properties' anchors; if a refactoring removed one,
        the comparison is skipped and counted - it is never turned into a violation."""
        try:
            return self.b.compare_state(obj, state)
        except (AttributeError, KeyError, TypeError) as error:
            self.stats["projection_unavailable"] = self.stats.get("projection_unavailable", 0) + 1
            self.stats["projection_error"] = "%s: %s" % (type(error).__name__, error)
            return []

    def observably_different(self, a, b_obj, rng, skip):
        """None when the two objects have equal deep snapshots or, failing that, answer the same continuations from the
        same stream positions; otherwise a description of the difference."""
        x, y = snapshot(a, rng=rng, skip=skip), snapshot(b_obj, rng=rng, skip=skip)
        if x == y:
            return None
        from harness.snap import copy_streams
        other = copy.deepcopy(b_obj)
        if not rng and not copy_streams(a, other):
            return "; ".join(diff(x, y))
        px, py = self.probe(a, full=True), self.probe(other, full=True)
        if same(px, py):
            self.stats["internal_only_differences"] = self.stats.get("internal_only_differences", 0) + 1
            return None
        return "%s; a continuation answers %s instead of %s" % ("; ".join(diff(x, y)), _fmt(px), _fmt(py))

    def canon(self, value):
        """Outputs with arm labels mapped back to specification labels (for comparisons across bindings)."""
        b = self.b
        def arm(a):
            a = a.item() if hasattr(a, "item") else a
            return b.inv.get(a, repr(a))
        def one(v):
            if isinstance(v, dict):
                return [(arm(k), float(x)) for k, x in v.items()]
            return arm(v)
        if isinstance(value, list):
            return [one(v) for v in value]
        return one(value)

    # -- C17 ---------------------------------------------------------------
    def check_reject(self, obj, label, outcome, value, before_rng, skey):
        kind = label["kind"]
        if outcome == "skip":
            self.stats["rejects_not_applicable"] = self.stats.get("rejects_not_applicable", 0) + 1
            return
        allowed = REJECT_CLASSES.get(kind, _BOTH + (("Exception",) if kind.startswith("predict") else ()))
        if outcome == "ok":
            self.report("reject.noraise", "invalid call %s was accepted" % kind, skey, label)
            return
        if outcome not in allowed:       # the property asks for "an exception"; an unexpected class is recorded, not judged
            self.stats["reject_other_class"] = self.stats.get("reject_other_class", 0) + 1
        changed = self.observably_different(obj, before_rng, True, self.b.skip())
        if changed:
            self.report("reject.changed", "rejected call %s (%s) changed the bandit: %s" % (kind, outcome, changed), skey, label)

    # -- C08 C09 C10 and the documented sampler (C01) -----------------------
    def check_query(self, obj, twin, label, value, before, skey, skip):
        b = self.b
        if hasattr(b, "check_query"):
            return b.check_query(self, obj, twin, label, value, before, skey, skip)
        m = label["m"]
        op = label["op"]
        arms = list(obj.arms)
        if "readonly" in self.checks:
            self.check_readonly(obj, twin, op, before, skey, label, skip)
        rows, shape_ok = rows_of(value, m)
        if "shape" in self.checks and not shape_ok:
            self.report("shape.rows", "%s with %d rows returned %r" % (op, m, type(value).__name__), skey, label)
            return
        try:
            variants = b.sample(twin, m)
        except Exception:  # noqa: the internal attributes the documented sampler reads are not as the anchors describe them:
            self.stats["projection_unavailable"] = self.stats.get("projection_unavailable", 0) + 1     # skipped and counted
            return
        if op == "predict_expectations":
            if "shape" in self.checks:
                for row in rows:
                    if not isinstance(row, dict) or list(row.keys()) != arms:
                        self.report("shape.keys", "expectation keys %s, arms %s"
                                    % (list(row.keys()) if isinstance(row, dict) else row, arms), skey, label)
                        return
            if "result" in self.checks and not any(same(rows, v) for v in variants):
                self.report("result.sampler", "predict_expectations returned %s, the documented sampler on the same "
                            "generator state gives %s" % (_fmt(rows), _fmt(variants[0])), skey, label)
        else:
            if "shape" in self.checks:
                for arm in rows:
                    if arm not in arms:
                        self.report("shape.member", "predict returned %r, not in arms %s" % (arm, arms), skey, label)
                        return
            if "argmax" in self.checks:
                exps = twin.predict_expectations(b.contexts(m))
                erows, _ = rows_of(exps, m)
                want = [first_argmax(arms, row) for row in erows]
                if [self._eq(a) for a in rows] != [self._eq(a) for a in want]:
                    self.report("argmax.first", "predict returned %s; first maximiser of the expectations from the same "
                                "stream position is %s (expectations %s)" % (rows, want, _fmt(erows)), skey, label)
            res = label.get("res", {})
            if "result" in self.checks and res.get("kind") == "greedy" and b.epsilon == 0:
                want = b.lm[res["arm"]]
                if any(arm != want for arm in rows):
                    self.report("result.arm", "predict returned %s, specification says %r" % (rows, want), skey, label)

    def check_locality(self, src, obj, label, skey):
        """Policies that keep one independent model per arm: training on rows of some arms leaves the expectations of
        every other arm exactly as they were (in particular those of the arm a warm-started arm was copied from)."""
        b = self.b
        if not b.independent_arms():
            return
        touched = {b.lm[b.row(i)[0]] for i in label["rows"]}
        q = {"op": "predict_expectations", "m": 3}
        o0, e0 = b.call(copy.deepcopy(src), q, self.feat)
        o1, e1 = b.call(copy.deepcopy(obj), q, self.feat)
        if o0 != "ok" or o1 != "ok":
            return
        self.stats["locality"] = self.stats.get("locality", 0) + 1
        rows0, _ = rows_of(e0, 3)
        rows1, _ = rows_of(e1, 3)
        for r0, r1 in zip(rows0, rows1):
            for arm in r0:
                if arm not in touched and arm in r1 and not same(r0[arm], r1[arm]):
                    self.report("locality.other_arm", "partial_fit with rows of %s only changed the expectation of arm %r from %r "
                                "to %r" % (sorted(map(repr, touched)), arm, r0[arm], r1[arm]), skey, label)
                    return

    def check_predict_around(self, src, label, skey):
        """C09 on ONE object: predict, then the state-changing call of this edge, then predict again - the second answer
        must be the first maximiser of the expectations the same object reports (nothing remembered from the first)."""
        b = self.b
        q = {"op": "predict", "m": 1}
        if hasattr(b, "d"):
            q = {"op": "predict", "X": [[1] * b.d]}          # Lin.tla labels carry the query rows
        work = copy.deepcopy(src)
        if b.call(work, q, self.feat)[0] != "ok" or b.call(work, label, self.feat)[0] != "ok":
            return
        twin = copy.deepcopy(work)
        outcome, value = b.call(work, q, self.feat)
        if outcome != "ok":
            return
        self.stats["predict_around"] = self.stats.get("predict_around", 0) + 1
        checks, self.checks = self.checks, ("argmax",)
        try:
            self.check_query(work, twin, dict(q, around=label["op"]), value, None, skey, b.skip())
        finally:
            self.checks = checks

    def check_readonly(self, obj, twin, op, before, skey, label, skip):
        """C10: the deep snapshot (minus random streams) must be unchanged; if some internal representation did change
        (a cache, say) the verdict is behavioural: the queried bandit and the unqueried copy, put at the same stream
        positions, must answer a long continuation (training, arm changes, warm start, refit, queries) identically."""
        after = snapshot(obj, rng=False, skip=skip)
        if after == before:
            return
        # what the caller configured (constructor parameters kept on the objects) is not a cache: a query must not rewrite it
        for holder_q, holder_u, where in ((obj, twin, "MAB"), (getattr(obj, "_imp", None), getattr(twin, "_imp", None), "MAB._imp")):
            for name in ("n_jobs", "backend", "seed"):
                if holder_q is not None and hasattr(holder_u, name) and getattr(holder_q, name) != getattr(holder_u, name):
                    self.report("readonly.config", "%s changed the configured %s.%s from %r to %r"
                                % (op, where, name, getattr(holder_u, name), getattr(holder_q, name)), skey, label)
                    return
        from harness.snap import copy_streams
        unqueried = copy.deepcopy(twin)
        if copy_streams(obj, unqueried):
            x, y = self.probe(obj, full=True), self.probe(unqueried, full=True)
            if same(x, y):
                self.stats["readonly_internal_only"] = self.stats.get("readonly_internal_only", 0) + 1
                return
            detail = "%s changed the model (%s) and a continuation answers %s instead of %s" % (
                op, "; ".join(diff(before, after)), _fmt(x), _fmt(y))
        else:
            detail = "%s changed the model: %s" % (op, "; ".join(diff(before, after)))
        self.report("readonly.changed", detail, skey, label)

    @staticmethod
    def _eq(arm):
        return arm.item() if hasattr(arm, "item") else arm

    def probe_inplace(self, mab):
        """One long continuation executed on the object itself (which is consumed)."""
        b = self.b
        out = []
        for labels in b.probe_labels(mab, True):
            for label in labels:
                if label["op"] == "cold_arms":
                    try:
                        out.append(list(mab.cold_arms))
                    except Exception as error:  # noqa
                        out.append("raised " + type(error).__name__)
                    continue
                if label["op"] == "add_arm" and b.lm[label["arm"]] in mab.arms:
                    continue
                if label["op"] == "remove_arm" and (b.lm[label["arm"]] not in mab.arms or len(mab.arms) <= 2):
                    continue
                outcome, value = b.call(mab, label, self.feat)
                out.append(value if outcome == "ok" else "raised " + outcome)
        return out

    def probe(self, mab, full=False):
        """Outputs of fixed continuations, each on its own deep copy: what a user can observe of the model.
        With full=True several continuations are run, each beginning with a different kind of call, so that a
        difference that only shows when (say) warm_start comes before the next query is not masked."""
        b = self.b
        out = []
        for labels in b.probe_labels(mab, full):
            work = copy.deepcopy(mab)
            for label in labels:
                if label["op"] == "cold_arms":
                    try:
                        out.append(list(work.cold_arms))
                    except Exception as error:  # noqa
                        out.append("raised " + type(error).__name__)
                    continue
                if label["op"] == "add_arm" and b.lm[label["arm"]] in work.arms:
                    continue
                if label["op"] == "remove_arm" and (b.lm[label["arm"]] not in work.arms or len(work.arms) <= 2):
                    continue
                outcome, value = b.call(work, label, self.feat)
                out.append(value if outcome == "ok" else "raised " + outcome)
        return out

    # -- C07 ---------------------------------------------------------------
    def check_fresh(self, obj, before, edge, label, skey):
        b = self.b
        self.stats["fresh"] += 1
        if not getattr(b, "strict_snapshots", True):
            state = edge["s"]
            fresh = b.new(state["arms"], state.get("bin", "none"))
            fresh._rng.rng.bit_generator.state = before._rng.rng.bit_generator.state
            outcome, value = b.call(fresh, label, self.feat)
            if outcome != "ok":
                self.report("fresh.exception", "fit on a fresh bandit raised %s: %s" % (outcome, value), skey, label)
                return
            x, y = self.probe(obj), self.probe(fresh)
            if not same(x, y):
                self.report("fresh.outputs", "after fit the bandit answers %s; a fresh bandit fit on the same data from the "
                            "same generator state answers %s" % (_fmt(x), _fmt(y)), skey, label)
            return
        state = edge["s"]
        fresh = b.new(state["arms"], state.get("bin", "none"))
        fresh._rng.rng.bit_generator.state = before._rng.rng.bit_generator.state
        outcome, value = b.call(fresh, label, self.feat)
        if outcome != "ok":
            self.report("fresh.exception", "fit on a fresh bandit raised %s" % outcome, skey, label)
            return
        skip = b.skip()
        changed = self.observably_different(obj, fresh, True, skip)
        if changed:
            self.report("fresh.snapshot", "after fit the bandit differs from a fresh bandit fit on the same data: %s"
                        % changed, skey, label)
            return
        if edge["t"]["fitted"]:
            x = copy.deepcopy(obj).predict_expectations(self.ctx(1, obj))
            y = copy.deepcopy(fresh).predict_expectations(self.ctx(1, fresh))
            if not same(x, y):
                self.report("fresh.outputs", "expectations after refit %s, fresh bandit %s" % (_fmt(x), _fmt(y)),
                            skey, label)
            if list(obj.cold_arms) != list(fresh.cold_arms):
                self.report("fresh.cold_arms", "cold_arms after refit %s, fresh bandit %s"
                            % (obj.cold_arms, fresh.cold_arms), skey, label)

    # -- C19 ---------------------------------------------------------------
    def check_clone(self, obj, tkey, label, skip):
        b = self.b
        self.stats["clones"] += 1
        protocol = 2 + (self.stats["clones"] % 4)
        try:
            clones = [("deepcopy", copy.deepcopy(obj)),
                      ("pickle%d" % protocol, pickle.loads(pickle.dumps(obj, protocol=protocol)))]
        except Exception as error:  # noqa
            self.report("clone.exception", "copying raised %s: %s" % (type(error).__name__, error), tkey, label)
            return
        # a second pair of clones is taken after one query row: generators then hold half-consumed words
        try:
            if obj._is_initial_fit and self.stats["clones"] % 4 == 0:
                used1, used2 = copy.deepcopy(obj), copy.deepcopy(obj)
                used1.predict(self.ctx(1, used1))
                used2.predict(self.ctx(1, used2))
                clones += [("deepcopy after a query", copy.deepcopy(used1), used1),
                           ("pickle%d after a query" % protocol, pickle.loads(pickle.dumps(used2, protocol=protocol)), used2)]
        except Exception as error:  # noqa
            self.report("clone.exception", "copying after a query raised %s: %s" % (type(error).__name__, error), tkey, label)
            return
        queue = self.__dict__.setdefault("fresh_queue", [])
        if self.stats["clones"] % 5 == 1 and len(queue) < 10:
            # a pickle restored by ANOTHER interpreter must continue like the original (harness/fresh.py)
            try:
                from harness import fresh
                data = pickle.dumps(obj, protocol=protocol)
                log = fresh.CallLog(copy.deepcopy(obj))
                want = self.probe_inplace(log)
                queue.append(({"pickle": data, "protocol": protocol, "calls": object.__getattribute__(log, "_calls"),
                               "thr": dict(binarizers.THR), "unit": binarizers.UNIT}, want, tkey, label))
            except Exception as error:  # noqa
                self.report("clone.exception", "pickling raised %s: %s" % (type(error).__name__, error), tkey, label)
        for item in clones:
            how, clone = item[0], item[1]
            if len(item) > 2:
                # the queried object is a throw-away: the original itself (not a copy of it) runs the continuation
                original = item[2]
                x, y = self.probe_inplace(original), self.probe_inplace(clone)
                if not same(x, y):
                    self.report("clone.outputs", "%s: the copy answers a continuation with %s, the original with %s"
                                % (how, _fmt(y), _fmt(x)), tkey, label)
                continue
            self.compare_clone(how, clone, obj, tkey, label)

    def compare_clone(self, how, clone, obj, tkey, label):
        b = self.b
        ref = snapshot(obj, rng=True)
        for how, clone in [(how, clone)]:
            snap = snapshot(clone, rng=True)
            if snap != ref:
                # a copy may legitimately drop internal caches: decide by what a user can observe
                x, y = self.probe(obj, full=True), self.probe(clone, full=True)
                if same(x, y):
                    self.stats["clone_internal_only"] = self.stats.get("clone_internal_only", 0) + 1
                else:
                    self.report("clone.snapshot", "%s differs from the original (%s) and answers a continuation with %s "
                                "instead of %s" % (how, "; ".join(diff(ref, snap)), _fmt(y), _fmt(x)), tkey, label)
                continue
            if obj._is_initial_fit:
                base = copy.deepcopy(obj)
                x = base.predict_expectations(self.ctx(1, base))
                y = clone.predict_expectations(self.ctx(1, clone))
                if not same(x, y):
                    self.report("clone.outputs", "%s answers %s, original %s" % (how, _fmt(y), _fmt(x)), tkey, label)
                if snapshot(obj, rng=True) != ref:
                    self.report("clone.independent", "using the %s changed the original" % how, tkey, label)
                elif self.stats["clones"] % 3 == 0:
                    for step in self.b.probe_labels(clone, False)[0]:     # incremental training first, then the long continuation
                        if step["op"] == "partial_fit":
                            self.b.call(clone, step, self.feat)
                    self.probe_inplace(clone)          # refit, arm changes and warm start on the copy
                    if snapshot(obj, rng=True) != ref:
                        self.report("clone.independent", "training the %s changed the original: %s"
                                    % (how, "; ".join(diff(ref, snapshot(obj, rng=True)))), tkey, label)


def _fmt(value):
    text = repr(value)
    return text if len(text) <= 400 else text[:400] + "..."
