"""Writes MANIFEST.json from the table of claimed checks (single source: this file)."""
import json
import os
import subprocess

ROOT = os.path.dirname(os.path.dirname(os.path.abspath(__file__)))

LEVEL_NOTE = ("Trusted base: TLC 1.8 and the TLA+ modules in spec/ (checked with TLC on every run), the binding layer "
              "harness/*.py (projection of the real object, exact-term evaluator, generic deep snapshot), NumPy/"
              "scikit-learn as installed, BLAS threads pinned to 1. Bounds of the exhaustive models are recorded in "
              "the evidence file (tlc_runs); beyond them TLC random simulation of the same specification is used.")

CLAIMS = {
    "C04": ("Multi.tla: an observed bandit and an interferer (another bandit with another seed, draws from and re-seeding of the "
            "process-global generators) interleave in every possible way, process-global state is an explicit variable, "
            "Inv_C04_Isolation says the observed outputs are a function of the observed history; every TLC interleaving is "
            "executed on real objects for the policy combinations (incl. default-constructed tuples, int and str arms) and "
            "the digest compared with the solo run, also in fresh interpreters under PYTHONHASHSEED 0/1/random", "6.C04"),
    "C18": ("Life.tla graphs replayed under every container type (list, ndarray C/Fortran/non-contiguous view/int dtype, "
            "pandas Series/DataFrame) and compared edge by edge; byte snapshots of every caller object around every call; "
            "Orient.tla specifies how a Series is read (Inv_C18_Unambiguous) and every valid case is executed against the "
            "equivalent 2-D array; arms list / parameter objects / feature dictionary checked for aliasing", "6.C18"),
    "C20": ("Mab.tla Inv_C20_Rename / RowOrder / ShiftScale on the documented statistics (all label bijections, all row "
            "permutations, exact shift and scale identities) checked by TLC; Life.tla graphs replayed on the original and the "
            "transformed problem (int/str/float labels; permuted rows for context-free, linear, Radius, LSHNearest; shifted "
            "and scaled rewards) from the same seed and compared edge by edge", "6.C20"),
    "C05": ("Par.tla: seeds drawn once from the main stream, every ordered exact cover of the rows, every interleaving of "
            "workers for sequential / thread / process backends, symbolic stream positions (Inv_C05_RowLocal/Partition/"
            "FitOrder), CodePartition arithmetic (Inv_C05_ExactCover for n<=64, n_jobs in -66..66); every TLC schedule is "
            "executed chunk by chunk on the real _predict_contexts and compared with the whole batch and each row alone; "
            "real joblib runs (threading/loky/multiprocessing) recorded through the guarded hooks and validated by "
            "TracePar.tla, results compared with n_jobs=1", "6.C05"),
    "C15": ("Sim.tla specifies the Simulator as the script of public API calls it stands for (offline: fit, predict; "
            "online: predict, expectations, partial_fit per batch), TLC enumerates (n, test_size, ordered, batch_size) and "
            "checks each row is predicted once and learned only afterwards; the real Simulator.run() is compared with the "
            "script executed on deep copies of the original bandits (lists with several neighbourhood bandits of "
            "different metrics, is_quick on/off, fresh and already used bandits, with and without a context scaler - "
            "Inv_C15_ScaleFirst)", "0.6, 6.C15"),
    "C16": ("Sim.tla defines the split laws, exact per-arm statistics and the default evaluator over rationals; the public "
            "attributes of real Simulator runs are validated by TraceSim.tla, which recomputes them exactly (partition, "
            "last rows when ordered, train+test=total, credited rewards, counts sum to the test size, ordered analyses, "
            "per-batch analyses of online runs with each row's own neighbourhood statistics)", "0.6, 6.C16"),
    "C02": ("Lin.tla: per-arm A = lambda*I + X'X, Xty = X'y accumulated incrementally vs the ridge normal equations "
            "over the ghost history with exact rational arithmetic (Inv_C02_NormalEq/Solves/Unobserved); every edge "
            "replayed on LinGreedy/LinUCB/LinTS: A, Xty exactly, beta and expectations against exact x.beta and "
            "x'A^-1x (plus numpy.linalg.solve as a second oracle), d in {1,2}, m in {1,2,3,1025,1500}, scale=True "
            "single fit through a rational identity; LinScale.tla: scale=True over several training calls (running moments by "
            "the incremental recurrence = moments of all rows of the arm, one segment per call; Inv_C02_RunningMoments/"
            "Segments/LastSegmentCurrent), every edge replayed: scaler moments, A, Xty, expectations; beyond the exact model "
            "seeded histories with d <= 12 and real-valued data against numpy.linalg.solve on the raw history", "0.6, 0.8, 6.C02"),
    "C03": ("Nbhd.tla: exact distances on integer grids, RadiusSet (boundary included) and all tie-valid KSets; "
            "recorded executions of real Radius/KNearest bandits validated by TraceNbhd.tla, which also prints "
            "the set of documented results per query (learning policy trained from scratch on the selected rows) "
            "that the real expectations must belong to; whole-number contexts given as integer arrays first and fractional "
            "rows later (grid scaled by 1/2)", "0.6, 6.C03"),
    "C11": ("Nbhd.tla LSH tables with index offsets, exhaustive over all signature maps (Inv_C11_Tables/Union/"
            "Self); recorded executions validated by TraceNbhd.tla with signatures recomputed from "
            "table_to_plane: logged tables = spec tables after every fit/partial_fit, query result = policy on "
            "the collision set, scaled and stored queries", "6.C11"),
    "C12": ("Nbhd.tla cell / leaf bookkeeping exhaustive over all cell maps (Inv_C12_Leaves); recorded executions "
            "of Clusters (KMeans, MiniBatchKMeans) and TreeBandit validated by TraceNbhd.tla with cells and leaves "
            "read from the fitted sklearn objects", "6.C12"),
    "C01": ("Mab.tla: impl-shaped accumulators/expectations vs Def* over the ghost history (Inv_C01_Acc/Total/Term/"
            "Neutral) for the six context-free policies, TLC-checked on all histories within bounds; every emitted "
            "edge replayed on a real MAB and its projected state and sampler output compared with the exact term; "
            "deviation configs show non-vacuity; long recorded histories with wide values (up to 6 arms, batches of 50 rows, "
            "rewards up to 2^16 in a dyadic unit, narrow reward dtypes) validated by TraceMab.tla", "0.6, 6.C01"),
    "C06": ("Mab.tla state graph confluence: all chunkings of a history into fit + partial_fit* reach one spec state "
            "(Inv_C01_* hold in it); the replay compares the real objects reaching that state along different "
            "chunkings bit for bit", "6.C06"),
    "C07": ("Prop_C07_FitIsFresh (action property, TLC) + replay: every fit edge out of a non-initial state is "
            "compared with a freshly constructed bandit fit on the same data from the same generator state "
            "(deep snapshot, expectations, cold_arms)", "6.C07"),
    "C08": ("Inv_C08_Keys (TLC) + replay: arm list, key sets and key order of every per-arm map and of every query "
            "result, result shape for 0/1/m rows, after every edge of histories interleaving arm changes (Mab.tla and Life.tla "
            "graphs over all 45 policy combinations, arm-churn graphs); the repository's own test-suite run with hooks on and "
            "every public call validated as a step of Life.tla by TraceLife.tla", "0.6, 6.C08"),
    "C09": ("Inv_C09_FirstArgmax on exact rationals (TLC) + replay: predict on one copy versus first maximiser in "
            "arm-list order of predict_expectations on another copy from the same stream position, label maps whose "
            "order differs from the sorted order", "6.C09"),
    "C10": ("Prop_C10_ReadOnly (TLC) + replay: deep snapshot (minus random streams) before/after every query edge; "
            "query edges are self-loops of the spec graph so every continuation starts from the queried object",
            "6.C10"),
    "C13": ("WarmStart action with exact rational cosine distances and numpy-quantile thresholds; Prop_C13_WarmStart, "
            "Prop_C13_Idempotent, Inv_C13_Cold, Inv_C13_Monotone (TLC) + replay of every warm_start edge: copied "
            "state, status, cold_arms", "6.C13"),
    "C14": ("Mab.tla with binarizers thr/flip/ge2 (flip is not idempotent), add_arm(arm, binarizer): Beta parameters "
            "equal the statistics of the once-converted rewards (Inv_C01_Acc over converted ghost rewards) + replay; "
            "Life.tla with the binarizer epoch (Inv_C14_Epoch): a bandit with a binarizer against a bandit fed the converted "
            "rewards, edge by edge under every neighbourhood policy, also when the first binarizer arrives with add_arm; "
            "caller arrays byte-compared; recorded neighbourhood executions validated by TraceNbhd.tla", "0.6, 6.C14"),
    "C17": ("Reject(kind) actions for every documented fault class at every position of every history, "
            "Prop_C17_RejectUnchanged (TLC) + replay: the call must raise the documented class and the deep snapshot "
            "including generator states must be unchanged; continuation edges start from the object that saw the "
            "rejected call", "6.C17"),
    "C19": ("replay: at every new spec state the real object is deep-copied and pickled (protocols 2-5); clones must "
            "have identical deep snapshots, identical answers, and using them must not change the original; a sample of "
            "the pickles is restored by another interpreter (new process, other hash seed) that repeats the continuation "
            "recorded on the original", "0.6, 6.C19"),
}

NOT_APPLICABLE = {}

TECH = {p: "explicit TLA+ spec checked by TLC; recorded executions of the real library validated against it "
           "(code->spec trace validation, TLC prints the documented result set per query)" for p in ("C03", "C11", "C12")}
TECH["C05"] = ("explicit TLA+ spec of partitioning/seeding/scheduling checked by TLC; every TLC schedule executed on the real "
               "chunk-level entry point; recorded joblib executions validated by TracePar.tla")
TECH["C04"] = "explicit TLA+ spec of interleaved instances with process-global state; every TLC interleaving executed on real objects, digests compared with the solo run and across interpreters / hash seeds"
TECH["C18"] = "explicit TLA+ spec (Life, Orient); the same TLC graph replayed under every container type and compared edge by edge, caller objects snapshotted"
TECH["C20"] = "TLC-checked invariance of the documented statistics (Mab.tla) + the same TLC graph replayed on original and transformed problems"
TECH["C15"] = "explicit TLA+ spec of the simulation protocol; TLC-emitted public-API scripts replayed against Simulator.run()"
TECH["C16"] = "explicit TLA+ spec of split/statistics/evaluator over exact rationals; recorded Simulator runs validated by TLC"


def main():
    head = subprocess.run(["git", "-C", "/repo", "log", "--format=%H %s"], stdout=subprocess.PIPE).stdout.decode()
    hook_commits = [line.split()[0] for line in head.splitlines() if "verif hooks" in line]
    checks = []
    for prop in sorted(CLAIMS):
        text, ref = CLAIMS[prop]
        checks.append({
            "property_id": prop,
            "quick_cmd": "./check %s --tier quick" % prop,
            "thorough_cmd": "./check %s --tier thorough" % prop,
            "evidence_file": "evidence/%s.json" % prop,
            "replay_cmd_template": "./check %s --replay {path}" % prop,
            "engine": "tlc+replay",
            "level_claimed": {"category": "model_checking", "text": text, "design_ref": ref},
            "level_note": LEVEL_NOTE,
            "technique": TECH.get(prop, "explicit TLA+ spec checked by TLC; every TLC-emitted edge replayed on the real "
                                           "library (spec->code conformance)"),
        })
    props = [json.loads(line)["id"] for line in open(os.path.join(ROOT, "properties.jsonl"))]
    na = [{"property_id": p, "reason": NOT_APPLICABLE.get(p, "check not built yet in this round (model-based check planned, see DESIGN.md section 6)")}
          for p in props if p not in CLAIMS]
    manifest = {
        "version": 1,
        "setup_cmd": "./setup.sh",
        "hooks": {
            "guard": "MABWISER_VERIF",
            "enable": "MABWISER_VERIF=1 in the environment before importing mabwiser (pure Python, nothing to build); "
                      "sink given by MABWISER_VERIF_SINK=module:function or mabwiser._verif.set_sink",
            "baseline_off_cmd": "cd /repo && /venv/bin/python -m pytest -ra -q -p no:cacheprovider --timeout=900 "
                                "--continue-on-collection-errors",
            "source_commits": hook_commits,
            "add_only": True,
        },
        "engines": [
            {"name": "tlc+trace-validation", "path": "harness/engine_nb.py", "serves_properties": ["C03", "C11", "C12", "C08", "C09", "C10"],
             "kind_free_text": "recorded executions of real neighbourhood bandits validated by spec/TraceNbhd.tla"},
            {"name": "tlc+replay", "path": "harness/engine_cf.py", "serves_properties": sorted(CLAIMS),
             "kind_free_text": "TLC model checking / simulation of spec/*.tla with edge emission; replay of every edge "
                               "on the real library with projection, exact-term and deep-snapshot comparison"},
        ],
        "checks": checks,
        "not_applicable": na,
        "notes": "Entry point ./check <ID> --tier quick|thorough [--replay file]; exit 0 held, 1 violation, 2 machinery "
                 "failure. Known findings: known_findings.jsonl. MABWISER_REPO=<tree> runs the checks against another "
                 "source tree (used to calibrate against seeded changes).",
    }
    with open(os.path.join(ROOT, "MANIFEST.json"), "w") as handle:
        json.dump(manifest, handle, indent=1)
    print("MANIFEST.json: %d checks, %d not claimed" % (len(checks), len(na)))


if __name__ == "__main__":
    main()
