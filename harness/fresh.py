"""C19: a pickle written by one interpreter and restored by another.

The in-process clone checks cannot see state that lives outside the object (module or class level caches, anything
keyed on id() or on this interpreter's hash seed).  For a sample of specification states the replay engine pickles
the real bandit, runs the long continuation on the original through a recording proxy, and hands pickle + recorded
concrete calls to a NEW python process (different PYTHONHASHSEED), which restores the bandit, makes the same calls
and returns what it got.  `python -m harness.fresh <in> <out>` is that other process."""
import os
import pickle
import subprocess
import sys
import tempfile

PUBLIC = ("fit", "partial_fit", "predict", "predict_expectations", "add_arm", "remove_arm", "warm_start")


class CallLog(object):
    """Forwards to a real MAB and records the public calls made through it."""

    def __init__(self, mab):
        object.__setattr__(self, "_m", mab)
        object.__setattr__(self, "_calls", [])

    def __getattr__(self, name):
        target = object.__getattribute__(self, "_m")
        if name == "cold_arms":
            object.__getattribute__(self, "_calls").append(("cold_arms", (), {}))
            return target.cold_arms
        value = getattr(target, name)
        if name in PUBLIC:
            calls = object.__getattribute__(self, "_calls")

            def wrapper(*args, **kwargs):
                kept_args, kept_kwargs = pickle.loads(pickle.dumps((args, kwargs)))      # the caller may reuse its containers
                calls.append((name, kept_args, kept_kwargs))
                return value(*args, **kwargs)
            return wrapper
        return value

    def __setattr__(self, name, value):
        setattr(object.__getattribute__(self, "_m"), name, value)


def replay_calls(mab, calls):
    out = []
    for name, args, kwargs in calls:
        try:
            if name == "cold_arms":
                out.append(list(mab.cold_arms))
            else:
                out.append(getattr(mab, name)(*args, **kwargs))
        except Exception as error:  # noqa: the outcome is compared
            out.append("raised " + type(error).__name__)
    return out


def other_interpreter(items, timeout=600):
    """items: list of dicts(pickle=bytes, calls=[...], thr=.., unit=..) -> list of outputs (or an error string)."""
    directory = tempfile.mkdtemp(prefix="fresh_")
    src, dst = os.path.join(directory, "in.pkl"), os.path.join(directory, "out.pkl")
    try:
        with open(src, "wb") as handle:
            pickle.dump(items, handle, protocol=4)
        env = dict(os.environ)
        env["PYTHONHASHSEED"] = "4242"
        proc = subprocess.run([sys.executable, "-m", "harness.fresh", src, dst], env=env, stdout=subprocess.PIPE,
                              stderr=subprocess.STDOUT, timeout=timeout)
        if proc.returncode != 0 or not os.path.exists(dst):
            raise RuntimeError("the restoring interpreter failed: %s" % proc.stdout.decode()[-800:])
        with open(dst, "rb") as handle:
            return pickle.load(handle)
    finally:
        for path in (src, dst):
            if os.path.exists(path):
                os.unlink(path)
        os.rmdir(directory)


def main(src, dst):
    os.environ.setdefault("OMP_NUM_THREADS", "1")
    from harness import binarizers
    with open(src, "rb") as handle:
        items = pickle.load(handle)
    results = []
    for item in items:
        binarizers.configure(item["thr"], item["unit"])
        try:
            mab = pickle.loads(item["pickle"])
        except Exception as error:  # noqa
            results.append("restore raised %s: %s" % (type(error).__name__, error))
            continue
        results.append(replay_calls(mab, item["calls"]))
    with open(dst, "wb") as handle:
        pickle.dump(results, handle, protocol=4)


if __name__ == "__main__":
    main(sys.argv[1], sys.argv[2])
