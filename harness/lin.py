"""Binding between spec/Lin.tla and the linear policies of the real library (LinGreedy, LinUCB, LinTS)."""
import copy
import json
import math
from fractions import Fraction

import numpy as np

from harness import terms
from harness.cf import LABEL_MAPS, first_argmax, rows_of
from harness.snap import snapshot, diff, same


def _mab_module():
    from mabwiser import mab as mab_module
    return mab_module


def mat(value):
    return np.array([[float(terms.frac(x)) for x in row] for row in value], dtype=float)


def solve_exact(A, B):
    """beta with A beta = B over exact fractions (Gauss-Jordan), as floats."""
    n = len(B)
    M = [[terms.frac(x) for x in row] + [terms.frac(B[i])] for i, row in enumerate(A)]
    for c in range(n):
        p = next(r for r in range(c, n) if M[r][c] != 0)
        M[c], M[p] = M[p], M[c]
        M[c] = [v / M[c][c] for v in M[c]]
        for r in range(n):
            if r != c and M[r][c] != 0:
                M[r] = [a - M[r][c] * b for a, b in zip(M[r], M[c])]
    return np.array([float(M[i][n]) for i in range(n)], dtype=float)


def vec(value):
    return np.array([float(terms.frac(x)) for x in value], dtype=float)


class LinBinding:
    def __init__(self, reg="ucb", alpha=1.25, lam=(1, 2), labelmap="int", unit=1, seed=7, n_jobs=1, backend=None,
                 container="ndarray", scale=False, ctx_dtype="float"):
        self.scale = scale
        self.ctx_dtype = ctx_dtype
        self.reg = reg
        self.lp = "lin-" + reg
        self.alpha = alpha if reg != "ridge" else 0.0
        self.lam = Fraction(*lam)
        self.lmname = labelmap
        self.lm = dict(LABEL_MAPS[labelmap])
        self.inv = {v: k for k, v in self.lm.items()}
        self.unit = Fraction(unit)
        self.seed = seed
        self.n_jobs = n_jobs
        self.backend = backend
        self.container = container

    def describe(self):
        return {"lp": self.lp, "alpha": self.alpha, "l2_lambda": str(self.lam), "labels": self.lmname,
                "unit": str(self.unit), "seed": self.seed, "n_jobs": self.n_jobs, "backend": self.backend,
                "container": self.container, "scale": self.scale, "ctx_dtype": self.ctx_dtype}

    def skip(self):
        return ()

    def probe_labels(self, mab, full):
        x = [[1] * self.d, [2] * self.d]
        first = self.spec_label(mab.arms[0])
        last = self.spec_label(mab.arms[-1])
        q = [{"op": "predict_expectations", "X": x}, {"op": "predict", "X": x}, {"op": "cold_arms"}]
        if not full:
            return [q]
        return [q,
                [{"op": "partial_fit", "batch": [{"a": first, "r": 1, "x": [1] * self.d}]}] + q,
                [{"op": "add_arm", "arm": "c"}] + q,
                [{"op": "remove_arm", "arm": first}] + q,
                [{"op": "fit", "batch": [{"a": last, "r": 1, "x": [2] * self.d}]}] + q]

    def policy(self):
        LP = _mab_module().LearningPolicy
        lam = float(self.lam)
        if self.reg == "ridge":
            return LP.LinGreedy(epsilon=0.0, l2_lambda=lam, scale=self.scale)
        if self.reg == "ucb":
            return LP.LinUCB(alpha=self.alpha, l2_lambda=lam, scale=self.scale)
        return LP.LinTS(alpha=self.alpha, l2_lambda=lam, scale=self.scale)

    def new(self, arms, bin_name="none"):
        MAB = _mab_module().MAB
        return MAB([self.lm[a] for a in arms], self.policy(), seed=self.seed, n_jobs=self.n_jobs, backend=self.backend)

    def batch(self, rows):
        decisions = [self.lm[row["a"]] for row in rows]
        rewards = [float(row["r"] * self.unit) for row in rows]
        contexts = [[float(v) for v in row["x"]] for row in rows]
        if self.container == "list":
            return decisions, rewards, contexts
        if self.container == "frame":
            import pandas as pd
            return pd.Series(decisions), pd.Series(rewards), pd.DataFrame(contexts)
        return np.asarray(decisions), np.asarray(rewards), np.asarray(contexts)

    def contexts(self, m):
        return [[1.0, 1.0][:self.d] for _ in range(max(m, 1))]

    d = 2

    def call(self, mab, label, feat=None):
        op = label["op"]
        try:
            if op in ("fit", "partial_fit"):
                d, r, x = self.batch(label["batch"])
                self.d = len(label["batch"][0]["x"])
                return "ok", getattr(mab, op)(d, r, x)
            if op == "add_arm":
                return "ok", mab.add_arm(self.lm[label["arm"]])
            if op == "remove_arm":
                return "ok", mab.remove_arm(self.lm[label["arm"]])
            if op == "warm_start":
                q = terms.frac(label["q"])
                feats = {self.lm[a]: [float(v) for v in f] for a, f in (feat or {}).items() if self.lm[a] in mab.arms}
                return "ok", mab.warm_start(feats, float(q))
            if op in ("predict", "predict_expectations"):
                rowsX = label["X"] if "X" in label else self.contexts(label.get("m", 1))
                label = dict(label, X=rowsX)
                X = [[float(v) for v in x] for x in label["X"]]
                self.d = len(X[0])
                if self.ctx_dtype == "float64":
                    X = np.asarray(X, dtype=np.float64)
                elif self.ctx_dtype == "int":
                    X = np.asarray(label["X"], dtype=int)
                return "ok", getattr(mab, op)(X)
        except Exception as error:  # noqa
            return type(error).__name__, error
        raise ValueError(op)

    def spec_label(self, arm):
        return self.inv.get(arm, "?%r" % (arm,))

    def compare_state(self, mab, state):
        out = []
        imp = mab._imp
        arms = [self.spec_label(a) for a in mab.arms]
        if arms != state["arms"]:
            return [("state.arms", "arms %s, spec %s" % (arms, state["arms"]))]
        if list(imp.arm_to_model.keys()) != list(mab.arms) or list(imp.arm_to_expectation.keys()) != list(mab.arms):
            return [("state.keys", "model keys %s, arms %s" % (list(imp.arm_to_model.keys()), list(mab.arms)))]
        if bool(mab._is_initial_fit) != bool(state["fitted"]):
            out.append(("state.fitted", "fitted %s, spec %s" % (mab._is_initial_fit, state["fitted"])))
        if not state["fitted"] or self.scale:
            return out          # scale=True: the stored matrices live in standardised coordinates (irrational)
        u = float(self.unit)
        for label, arm in zip(arms, mab.arms):
            model = imp.arm_to_model[arm]
            wantA, wantB = mat(state["A"][label]), vec(state["B"][label]) * u
            if model.A is None or not np.array_equal(np.asarray(model.A, dtype=float), wantA):
                out.append(("state.A", "arm %s: A = %s, documented lambda*I + X'X = %s" % (label, _l(model.A), _l(wantA))))
            if model.Xty is None or not np.array_equal(np.asarray(model.Xty, dtype=float), wantB):
                out.append(("state.Xty", "arm %s: Xty = %s, documented X'y = %s" % (label, _l(model.Xty), _l(wantB))))
            wantbeta = solve_exact(state["A"][label], state["B"][label]) * u
            if model.beta is None or not np.allclose(model.beta, wantbeta, rtol=1e-9, atol=1e-12):
                out.append(("state.beta", "arm %s: beta = %s, exact ridge solution %s" % (label, _l(model.beta), _l(wantbeta))))
            sst = state["status"][label]
            rst = imp.arm_to_status[arm]
            by = rst["warm_started_by"]
            got = (bool(rst["is_trained"]), bool(rst["is_warm"]), "none" if by is None else self.spec_label(by))
            if got != (sst["tr"], sst["wm"], sst["by"]):
                out.append(("state.status", "arm %s: (trained, warm, by) = %s, spec %s"
                            % (label, got, (sst["tr"], sst["wm"], sst["by"]))))
        cold = [a for a in state["arms"] if not state["status"][a]["tr"] and not state["status"][a]["wm"]]
        got = [self.spec_label(a) for a in mab.cold_arms]
        if got != cold:
            out.append(("state.cold_arms", "cold_arms %s, spec %s" % (got, cold)))
        return out

    def expected(self, term, observed):
        xb = float(terms.frac(term["xb"]) * self.unit)
        if self.reg == "ridge":
            return xb
        bonus2 = float(terms.frac(term["bonus2"]))
        if self.reg == "ucb":
            return xb + self.alpha * math.sqrt(bonus2)
        return xb

    def check_query(self, rep, obj, twin, label, value, before, skey, skip):
        op = label["op"]
        X = label["X"]
        m = len(X)
        arms = list(obj.arms)
        if "readonly" in rep.checks:
            rep.check_readonly(obj, twin, op, before, skey, label, skip)
        rows, shape_ok = rows_of(value, m)
        if "shape" in rep.checks and not shape_ok:
            rep.report("shape.rows", "%s with %d rows returned %s (value %r)" % (op, m, type(value).__name__, _short(value)),
                       skey, label)
            return
        if op == "predict_expectations":
            for row in rows:
                if not isinstance(row, dict) or list(row.keys()) != arms:
                    rep.report("shape.keys", "expectation keys %s, arms %s" % (list(row.keys()) if isinstance(row, dict)
                                                                               else row, arms), skey, label)
                    return
            if "result" in rep.checks:
                tol = 1e-6 if self.reg == "ts" else 1e-9
                state = rep.current["s"]
                for i, row in enumerate(rows):
                    for arm in arms:
                        lab = self.spec_label(arm)
                        term = label["res"][i][lab]
                        want = self.expected(term, None)
                        got = float(row[arm])
                        if not terms.close(got, want, tol, tol):
                            unobserved = not state["status"][lab]["tr"] and not state["status"][lab]["wm"]
                            tag = ""
                            if unobserved and self.reg == "ucb" and self.lam != 1:
                                alt = float(terms.frac(term["xb"]) * self.unit) + self.alpha * math.sqrt(
                                    float(terms.frac(term["bonus2"])) * float(self.lam) ** 2)
                                if terms.close(got, alt, 1e-9, 1e-9):
                                    tag = " [unobserved_arm_covariance_lambdaI]"
                            rep.report("result.linear", "row %d arm %s: predict_expectations %r, documented x.beta%s = %r "
                                       "(x.beta = %s, x'A^-1x = %s)%s"
                                       % (i + 1, lab, got, " + alpha*sqrt(x'A^-1x)" if self.reg == "ucb" else "", want,
                                          term["xb"], term["bonus2"], tag), skey, label)
                            return
                # second, independent oracle: numpy.linalg.solve on the raw history of the specification state
                self.check_linalg(rep, state, rows, X, arms, skey, label, tol)
                # "for every number of query contexts": now and then the same rows repeated up to 1500 contexts
                if rep.stats["queries"] % 25 == 1:
                    n = 1500 if rep.stats["queries"] % 50 == 1 else 1025
                    big = [[float(v) for v in X[i % m]] for i in range(n)]
                    many = copy.deepcopy(twin).predict_expectations(big)
                    for i in range(n):
                        for arm in arms:
                            if not terms.close(float(many[i][arm]), float(rows[i % m][arm]), tol, tol):
                                rep.report("result.manyrows", "a batch of %d contexts: row %d (same context as row %d of the "
                                           "%d-row batch) arm %r gives %r instead of %r"
                                           % (n, i + 1, i % m + 1, m, arm, many[i][arm], rows[i % m][arm]), skey, label)
                                return
        else:
            for arm in rows:
                if arm not in arms:
                    rep.report("shape.member", "predict returned %r, not in arms %s" % (arm, arms), skey, label)
                    return
            if "argmax" in rep.checks:
                exps = twin.predict_expectations([[float(v) for v in x] for x in X])
                erows, _ = rows_of(exps, m)
                want = [first_argmax(arms, row) for row in erows]
                if [_item(a) for a in rows] != [_item(a) for a in want]:
                    rep.report("argmax.first", "predict returned %s; first maximiser of the expectations from the same "
                               "stream position is %s (%s)" % (rows, want, _short(erows)), skey, label)

    def check_linalg(self, rep, state, rows, X, arms, skey, label, tol):
        u = float(self.unit)
        lam = float(self.lam)
        d = len(X[0])
        for arm in arms:
            lab = self.spec_label(arm)
            own = [r for i, r in enumerate(state["hist"]) if r["a"] == lab and i >= state["born"][lab]]
            Xa = np.array([[float(v) for v in r["x"]] for r in own], dtype=float).reshape(len(own), d)
            ya = np.array([r["r"] * u for r in own], dtype=float)
            mu, sd = np.zeros(d), np.ones(d)
            if self.scale and own:
                mu = Xa.mean(axis=0)
                sd = Xa.std(axis=0)
                sd = np.where(sd <= 1e-6, 1.0, sd)
                Xa = (Xa - mu) / sd
            Amat = lam * np.eye(d) + Xa.T @ Xa
            beta = np.linalg.solve(Amat, Xa.T @ ya)
            for i, x in enumerate(X):
                xv = (np.array([float(v) for v in x]) - mu) / sd
                want = float(xv @ beta)
                if self.reg == "ucb":
                    if not own:
                        continue        # covariance of an unobserved arm is decided by the exact term above
                    want += self.alpha * math.sqrt(float(xv @ np.linalg.solve(Amat, xv)))
                got = float(rows[i][arm])
                if not terms.close(got, want, max(tol, 1e-9), max(tol, 1e-9)):
                    rep.report("result.linalg", "row %d arm %s: predict_expectations %r, numpy.linalg.solve on the arm's "
                               "raw history gives %r" % (i + 1, lab, got, want), skey, label)
                    return


def _l(a):
    return None if a is None else np.asarray(a).tolist()


def _short(v):
    text = repr(v)
    return text if len(text) < 300 else text[:300] + "..."


def _item(arm):
    return arm.item() if hasattr(arm, "item") else arm
