"""Engine for spec/Mab.tla: TLC (invariants + edge emission) and replay of every edge on the real library."""
import json
import multiprocessing
import os
import random
import time
import traceback

from harness import tlc
from harness.common import Machinery

ALL_INVARIANTS = ["Inv_C08_Keys", "Inv_C01_Acc", "Inv_C01_Total", "Inv_C01_Term", "Inv_C01_Neutral", "Inv_C13_Cold",
                  "Inv_C13_Monotone", "Inv_C09_FirstArgmax"]
ALL_PROPERTIES = ["Prop_C07_FitIsFresh", "Prop_C10_ReadOnly", "Prop_C17_RejectUnchanged", "Prop_C13_WarmStart",
                  "Prop_C13_Complete", "Prop_C13_Idempotent"]

FEATS = {
    "std": {"a": [3, 4], "b": [4, 3], "c": [0, 5], "d": [5, 0]},
    "dup": {"a": [3, 4], "b": [3, 4], "c": [4, 3], "d": [0, 0]},
    "zero": {"a": [3, 4], "b": [0, 0], "c": [-3, 4], "d": [4, -3]},
    "far": {"a": [5, 0], "b": [0, 5], "c": [-5, 0], "d": [3, 4]},
}

REWARDS = {"eg": {0, 1, 3}, "ucb1": {0, 1, 3}, "softmax": {0, 1, 3}, "pop": {0, 1, 3}, "ts": {0, 1}, "random": {0, 1, 3}}
REJECTS_CF = {"fit_len_mismatch", "pfit_len_mismatch", "fit_bad_type", "pfit_rewards_type", "fit_nan_reward",
              "pfit_nan_reward", "pfit_inf_reward", "pfit_none_reward", "fit_contexts_superfluous",
              "pfit_contexts_superfluous", "add_duplicate", "add_none", "add_nan", "add_inf", "add_binarizer_non_ts",
              "remove_unknown", "remove_none", "ws_not_dict", "ws_quantile_type", "ws_quantile_range",
              "ws_arms_mismatch", "predict_unfitted", "predict_exp_unfitted", "predict_bad_context_type",
              "predict_1d_context"}


def consts(lp, **over):
    c = dict(LP=lp, Labels={"a", "b", "c"}, InitArms=["a", "b"], Rewards=set(REWARDS[lp]), MaxBatch=2, MaxHist=3,
             MaxDepth=3, Ops={"fit", "partial_fit", "add_arm", "remove_arm", "predict", "predict_expectations"},
             InitBin="none", NewBins={"keep"}, Thr={"a": 1, "b": 2, "c": 3, "d": 1}, Feat="std",
             Quantiles={(0, 1), (1, 2), (1, 1)}, RejectKinds=set(), QueryRows={0, 1, 2}, Dev=set())
    c.update(over)
    feat = c.pop("Feat")
    names = [feat] if isinstance(feat, (str, dict)) else list(feat)
    maps = [FEATS[f] if isinstance(f, str) else f for f in names]
    c["FeatSets"] = [{k: v for k, v in m.items() if k in c["Labels"]} for m in maps]
    c["Thr"] = {k: v for k, v in c["Thr"].items() if k in c["Labels"]}
    return c


def _job(spec):
    """Runs in a worker process: TLC with emission and invariants, then the replay under each binding."""
    os.environ.setdefault("OMP_NUM_THREADS", "1")
    from harness import cf
    out = {"name": spec["name"], "findings": [], "replays": [], "error": None}
    try:
        c = spec["consts"]
        kw = {}
        if spec.get("mode") == "sim":
            kw = dict(simulate="num=%d" % spec["sim_num"], seed=spec.get("seed", 1))
        module = spec.get("module", "Mab")
        result = tlc.run(module, c, emit=True, invariants=spec.get("invariants", ALL_INVARIANTS),
                         properties=spec.get("properties", ALL_PROPERTIES), timeout=spec.get("timeout", 900), **kw)
        out["tlc"] = {"states": result.states, "generated": result.generated, "edges": len(result.edges),
                      "wall": result.wall, "violated": result.violated, "trace": result.trace[:80]}
        if result.violated:
            return out
        cross = []
        for bkw in spec["bindings"]:
            if module == "Life":
                from harness import gen
                binding = gen.GenBinding(**bkw)
            elif module == "Lin":
                from harness import lin
                binding = lin.LinBinding(lam=c["Lambda"], scale=c.get("Scaled", False), **bkw)
            else:
                binding = cf.CFBinding(c["LP"], **bkw)
            replay = cf.Replay(binding, feat=c.get("FeatSets") or c.get("Feat", {}), checks=spec.get("checks", cf.ALL_CHECKS),
                               clone_every=spec.get("clone_every", 1))
            replay.record_outputs = bool(spec.get("cross"))
            replay.query_after = spec.get("query_after")
            replay.caller_check = bool(spec.get("caller_check"))
            start = time.time()
            replay.run(result.edges)
            if spec.get("cross"):
                cross.append((binding, replay))
            if spec.get("mode") == "sim" and not spec.get("cross") and bkw is spec["bindings"][0]:
                # the same behaviours once more as paths on a single never-copied object
                fresh_binding = type(binding)(**_binding_kwargs(module, c, bkw))
                paths = cf.Replay(fresh_binding, feat=replay.feat, checks=spec.get("checks", cf.ALL_CHECKS))
                paths.run_paths(result.edges)
                replay.stats["path_edges"] = paths.stats.get("path_edges", 0)
                replay.stats["path_clones"] = paths.stats.get("path_clones", 0)
                for finding in paths.findings:
                    finding["job"] = spec["name"] + "/paths"
                    finding["consts"] = {k: _plain(v) for k, v in c.items()}
                    finding["engine"] = {"Lin": "lin", "Life": "life"}.get(module, "cf")
                    finding["path_mode"] = True
                    out["findings"].append(dict(finding))
            out["replays"].append({"binding": binding.describe(), "stats": replay.stats, "wall": time.time() - start,
                                   "samples": replay.samples})
            for finding in replay.findings:
                finding["job"] = spec["name"]
                finding["consts"] = {k: _plain(v) for k, v in c.items()}
                finding["engine"] = {"Lin": "lin", "Life": "life"}.get(module, "cf")
                out["findings"].append(dict(finding))
        if len(cross) > 1:
            out["findings"].extend(_cross_compare(spec, cross))
            out["cross_compared"] = sum(len(r.outputs) for _, r in cross[1:])
    except tlc.TLCError as error:
        out["error"] = "TLC: %s" % error
    except Exception:  # noqa
        out["error"] = traceback.format_exc()
    return out


def _binding_kwargs(module, c, bkw):
    if module == "Lin":
        return dict(bkw, lam=c["Lambda"], scale=c.get("Scaled", False))
    if module == "Life":
        return dict(bkw)
    return dict(bkw, lp=c["LP"])


def _cross_compare(spec, cross):
    """The same TLC graph replayed under several bindings: query outputs must agree edge by edge (C18 containers,
    C20 relabelling / row order / reward shift and scale).  spec["cross"] names the relation."""
    from harness import terms
    findings = []
    ref_b, ref = cross[0]
    ref_out = dict(ref.outputs)
    mode = spec["cross"]
    for binding, rep in cross[1:]:
        bad = 0
        for index, got in rep.outputs:
            want = ref_out.get(index)
            if want is None:
                continue
            if hasattr(binding, "agree"):
                ok = binding.agree(got, want, _agree)
            else:
                ok = _agree(got, want, 0.0 if mode == "exact" else 1e-9)
            if not ok and bad < 2:
                bad += 1
                findings.append({"clause": "cross." + mode, "op": "query", "engine": "cross", "label": {"edge": index},
                                 "detail": "edge %d of the same specification graph: under %s the query returns %s, under %s it "
                                           "returns %s" % (index, json.dumps(binding.describe()), repr(got)[:300],
                                                           json.dumps(ref_b.describe()), repr(want)[:300]),
                                 "path": [], "binding": binding.describe(), "job": spec["name"]})
    return findings


def _agree(a, b, tol):
    if isinstance(a, list) and isinstance(b, list):
        return len(a) == len(b) and all(_agree(x, y, tol) for x, y in zip(a, b))
    if isinstance(a, tuple) and isinstance(b, tuple):
        return len(a) == len(b) and all(_agree(x, y, tol) for x, y in zip(a, b))
    if isinstance(a, float) and isinstance(b, float):
        if a != a and b != b:
            return True
        return a == b if tol == 0.0 else abs(a - b) <= tol * max(1.0, abs(a), abs(b))
    return a == b


def _plain(v):
    if isinstance(v, (set, frozenset)):
        return sorted(_plain(x) for x in v)
    if isinstance(v, tuple):
        return list(v)
    if isinstance(v, dict):
        return {k: _plain(x) for k, x in v.items()}
    return v


PENDING = []


def defer(jobs, keep):
    """Queues jobs so that several groups (with their own finding filters) share one process pool."""
    PENDING.append((jobs, keep))


def flush(report):
    groups = list(PENDING)
    del PENDING[:]
    jobs, keeps = [], []
    for group, keep in groups:
        for job in group:
            jobs.append(job)
            keeps.append(keep)
    if jobs:
        run_jobs(report, jobs, None, keeps=keeps)


def run_jobs(report, jobs, keep, procs=None, keeps=None):
    """Runs the jobs in parallel; merges into the report the findings selected by keep(finding)."""
    procs = procs or min(len(jobs), max(1, (os.cpu_count() or 2)))
    order = sorted(range(len(jobs)), key=lambda i: 0 if jobs[i].get("mode") == "bfs" else 1)   # long jobs first
    jobs = [jobs[i] for i in order]
    if keeps is not None:
        keeps = [keeps[i] for i in order]
    ctx = multiprocessing.get_context("fork")
    with ctx.Pool(procs, maxtasksperchild=1) as pool:
        results = pool.map(_job, jobs, chunksize=1)
    for index, (spec, out) in enumerate(zip(jobs, results)):
        if keeps is not None:
            keep = keeps[index]
        if out.get("error"):
            raise Machinery("job %s failed: %s" % (spec["name"], out["error"]))
        t = out["tlc"]
        if t["violated"]:
            raise Machinery("specification error: %s violated in clean model %s\n%s"
                            % (t["violated"], spec["name"], "\n".join(t["trace"])))
        report.states += t["states"]
        report.transitions += t["generated"]
        report.tlc_runs.append({"model": spec.get("module", "Mab") + "/" + spec["name"], "mode": spec.get("mode", "bfs"),
                                "states": t["states"], "transitions": t["generated"], "edges_emitted": t["edges"],
                                "invariants": spec.get("invariants", ALL_INVARIANTS),
                                "properties": spec.get("properties", ALL_PROPERTIES), "wall_s": round(t["wall"], 1)})
        for rep in out["replays"]:
            stats = rep["stats"]
            report.replayed += stats["edges"]
            for key in ("confluent", "fresh", "queries", "rejects", "clones", "states"):
                report.count("cf." + key, stats[key])
            for key in ("fresh_interpreter", "queried_representatives", "path_edges", "clone_internal_only", "predict_around", "path_clones", "locality"):
                if stats.get(key):
                    report.count("cf." + key, stats[key])
            for op, n in stats["ops"].items():
                report.count("cf.op." + op, n)
            for sample in rep["samples"][:1]:
                if len(report.samples) < 6:
                    report.samples.append({"engine": "Mab.tla edge replay", "binding": rep["binding"],
                                           "calls": sample["path"], "reached_spec_state": sample["state"]})
        report.count("cross.outputs_compared", out.get("cross_compared", 0))
        for finding in out["findings"]:
            if keep(finding):
                report.findings.append(finding)
            else:
                report.count("cf.unrelated_mismatches")
    return results


def negative(report, lp, dev, expect, over=None, timeout=300):
    """With one deviation switched on TLC must produce a counterexample to `expect` (non-vacuity)."""
    over = dict(over or {})
    over["Dev"] = {dev}
    c = consts(lp, **over)
    result = tlc.run("Mab", c, invariants=[i for i in ALL_INVARIANTS], properties=ALL_PROPERTIES, timeout=timeout,
                     workers=4)
    report.states += result.states
    report.transitions += result.generated
    ok = result.violated is not None
    report.negatives.append({"deviation": dev, "lp": lp, "expected_counterexample_to": expect,
                             "tlc_reported": result.violated, "ok": ok})
    if not ok:
        raise Machinery("deviation %s (lp %s) produced no counterexample: the invariants are vacuous" % (dev, lp))
    return result


def replay_finding(finding):
    """Re-executes the call path of a finding on the current tree; returns the clauses that fail now."""
    from harness import cf
    b = finding["binding"]
    binding = cf.CFBinding(b["lp"], labelmap=b["labels"], unit=b["unit"], dtype=b["dtype"], seed=b["seed"],
                           alpha=b["alpha"], tau=b["tau"], epsilon=b["epsilon"], n_jobs=b["n_jobs"],
                           backend=b["backend"], container=b["container"])
    c = finding.get("consts", {})
    arms = c.get("InitArms", ["a", "b"])
    mab = binding.new(arms, c.get("InitBin", "none"))
    for label in finding["path"]:
        binding.call(mab, label, c.get("Feat"))
    outcome, value = binding.call(mab, finding["label"], c.get("Feat")) if finding["label"].get("op") != "init" else ("ok", None)
    return outcome, value, mab


LIN_INVARIANTS = ["Inv_C02_NormalEq", "Inv_C02_Solves", "Inv_C02_Unobserved", "Inv_C08_Keys"]
LIN_PROPERTIES = ["Prop_C10_ReadOnly", "Prop_C07_FitIsFresh", "Prop_C13_WarmStart"]


def lin_consts(**over):
    c = dict(Labels={"a", "b", "c"}, InitArms=["a", "b"], D=2, Ctx={(0, 1), (1, 0), (1, 1), (2, -1)}, Rewards={-2, 1},
             Lambda=(1, 2), MaxBatch=1, MaxHist=3, MaxDepth=3,
             Ops={"fit", "partial_fit", "add_arm", "remove_arm", "predict_expectations", "predict"},
             QuerySets={((1, 1),), ((0, 1), (2, -1)), ((1, 0), (1, 1), (2, -1))}, Scaled=False,
             Feat={"a": [3, 4], "b": [3, 4], "c": [4, 3]}, Quantiles={(1, 2), (1, 1)}, Dev=set())
    c.update(over)
    return c


def lin_negative(report, dev, expect, over=None):
    c = lin_consts(**dict(over or {}, Dev={dev}))
    result = tlc.run("Lin", c, invariants=LIN_INVARIANTS, properties=LIN_PROPERTIES, timeout=300, workers=4)
    report.states += result.states
    report.transitions += result.generated
    ok = result.violated is not None
    report.negatives.append({"deviation": dev, "module": "Lin", "expected_counterexample_to": expect,
                             "tlc_reported": result.violated, "ok": ok})
    if not ok:
        raise Machinery("deviation %s (Lin) produced no counterexample" % dev)


LIFE_INVARIANTS = ["Inv_C06_Contiguous", "Inv_C08_Arms", "Inv_C14_Epoch"]
LIFE_PROPERTIES = ["Prop_C07_FitIsFresh", "Prop_C10_ReadOnly", "Prop_C17_RejectUnchanged"]


def life_consts(**over):
    c = dict(Labels={"a", "b", "c", "d"}, InitArms=["a", "b", "c"], NRows=10, Offsets={0, 1, 3}, WideOffsets=set(), MaxChunk=3, MaxHist=6, MinFit=1, MinArms=2,
             MaxDepth=4, Ops={"fit", "partial_fit", "add_arm", "remove_arm", "predict", "predict_expectations"},
             RejectKinds=set(), QueryRows={1, 3}, Quantiles={(1, 2), (1, 1)}, EpochOnAdd=False, Dev=set())
    c.update(over)
    return c


def life_negative(report, dev, expect):
    result = tlc.run("Life", life_consts(Dev={dev}), invariants=LIFE_INVARIANTS, properties=LIFE_PROPERTIES, timeout=300,
                     workers=4)
    report.states += result.states
    report.transitions += result.generated
    ok = result.violated is not None
    report.negatives.append({"deviation": dev, "module": "Life", "expected_counterexample_to": expect,
                             "tlc_reported": result.violated, "ok": ok})
    if not ok:
        raise Machinery("deviation %s (Life) produced no counterexample" % dev)
