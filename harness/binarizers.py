"""Module-level (picklable) Thompson Sampling binarizers used by the bindings.

The thresholds refer to concrete arm labels and concrete (unit-scaled) rewards and are installed by the
binding before a replay; they mirror the specification's Binz operator:
    thr : reward >= Thr[arm]      ident : identity on {0, 1}      flip : 1 - reward on {0, 1} (not idempotent)      ge2 : reward >= 2 units
"""
THR = {}
UNIT = 1


def configure(thr, unit):
    THR.clear()
    THR.update(thr)
    global UNIT
    UNIT = unit


def thr(arm, reward):
    return 1 if reward >= THR[arm] else 0


def flip(arm, reward):
    return 1 if reward == 0 else 0


def ge2(arm, reward):
    return 1 if reward >= 2 * UNIT else 0


def ident(arm, reward):
    return 1 if reward == 1 else 0


BY_NAME = {"thr": thr, "flip": flip, "ge2": ge2, "ident": ident, "none": None}
NAME_OF = {thr: "thr", flip: "flip", ge2: "ge2", ident: "ident", None: "none"}
