"""Sink for the guarded hooks of mabwiser/_verif.py: one JSON line per event, one file per process.

Enabled by MABWISER_VERIF=1, MABWISER_VERIF_SINK=harness.hooksink:emit and MABWISER_VERIF_DIR=<directory>;
worker processes inherit the environment and write their own files, so events of process-based
backends are captured with per-process sequence numbers (never merged by wall clock).
"""
import json
import os

import numpy as np

_handles = {}
WANTED = ("BaseMAB._partition_contexts", "._predict_contexts", "BaseMAB._parallel_predict", "._fit_arm",
          "._add_neighbors")


def _brief(value):
    if isinstance(value, np.ndarray):
        if value.ndim == 1 and value.size <= 4096 and value.dtype.kind in "iu":
            return {"ints": [int(v) for v in value]}
        return {"shape": list(value.shape)}
    if isinstance(value, (int, bool, str)) or value is None:
        return value
    if isinstance(value, (np.integer,)):
        return int(value)
    if isinstance(value, (list, tuple)) and len(value) <= 64 and all(isinstance(v, (int, np.integer, list)) for v in value):
        return json.loads(json.dumps(value, default=int))
    return {"type": type(value).__name__}


def emit(event):
    name = event["name"]
    if not any(name.endswith(w) or name == w for w in WANTED):
        return
    directory = os.environ.get("MABWISER_VERIF_DIR")
    if not directory:
        return
    pid = os.getpid()
    handle = _handles.get(pid)
    if handle is None:
        handle = open(os.path.join(directory, "events_%d.jsonl" % pid), "a")
        _handles[pid] = handle
    obj = event["obj"]
    rec = {"pid": pid, "tid": event["tid"], "seq": event["seq"], "phase": event["phase"], "name": name,
           "obj": id(obj), "n_jobs": getattr(obj, "n_jobs", None),
           "args": [_brief(a) for a in event["args"]]}
    if event["phase"] == "end" and name.endswith("_partition_contexts"):
        rec["result"] = _brief(list(event["result"]))
    if event["phase"] == "exception":
        rec["error"] = type(event["error"]).__name__
    handle.write(json.dumps(rec) + "\n")
    handle.flush()
