"""C02, beyond the reach of the exact model: many features, real-valued data, long online histories.

Lin.tla decides the linear policies exactly for d <= 2 and small integer data.  The property also quantifies over
every feature count and real-valued contexts, so seeded histories with d up to 12 (fit, partial_fit chunks down to
single rows, arms without rows, arms added later) are run on the real library and compared with the independent
oracle the property names: numpy.linalg.solve on the per-arm normal equations built from the raw history, and the
standardised ridge for scale=True after a single fit (population standard deviation, 1 where it is <= 1e-6).
"""
import math
import random

import numpy as np

from harness import terms


def oracle(history, arm, lam, d, scale):
    rows = [(x, y) for a, x, y in history if a == arm]
    mu, sd = np.zeros(d), np.ones(d)
    if not rows:
        return np.zeros(d), np.eye(d) / lam, mu, sd, 0
    X = np.array([x for x, _ in rows], dtype=float)
    y = np.array([v for _, v in rows], dtype=float)
    if scale:
        mu = X.mean(axis=0)
        sd = X.std(axis=0)
        sd = np.where(sd <= 1e-6, 1.0, sd)
        X = (X - mu) / sd
    A = lam * np.eye(d) + X.T @ X
    beta = np.linalg.solve(A, X.T @ y)
    return beta, np.linalg.inv(A), mu, sd, len(rows)


def run(seed, tier, findings, counters):
    from mabwiser.mab import MAB, LearningPolicy as LP
    rnd = random.Random(seed)
    nrng = np.random.RandomState(seed)
    cases = 60 if tier == "thorough" else 18
    for case in range(cases):
        d = [3, 8, 12, 9, 5][case % 5]
        lam = [0.5, 4.0, 1.0, 2.5][case % 4]
        kind = ["ridge", "ucb", "ts"][case % 3]
        alpha = {"ridge": 0.0, "ucb": 0.7, "ts": 1e-9}[kind]
        scale = case % 6 == 5
        arms = [1, 2, 3, 4][: 3 + case % 2]
        policy = {"ridge": LP.LinGreedy(0.0, lam, scale), "ucb": LP.LinUCB(alpha, lam, scale), "ts": LP.LinTS(alpha, lam, scale)}[kind]
        mab = MAB(list(arms), policy, seed=seed + case)
        history = []
        where = {"case": case, "d": d, "l2_lambda": lam, "policy": kind, "scale": scale}

        def rows(n, pool):
            out = []
            for _ in range(n):
                x = nrng.randn(d) * [1.0, 3.0][rnd.randrange(2)]
                if scale:
                    x[0] = 5.0                                   # a constant column
                    x[1] = 2.0 + 1e-4 * nrng.randn()             # a nearly constant column: standardised, not merely centred
                out.append((rnd.choice(pool), x, float(np.round(nrng.randn() * 2, 3))))
            return out

        def train(op, batch):
            history.extend(batch)
            getattr(mab, op)([a for a, _, _ in batch], [y for _, _, y in batch], np.array([x for _, x, _ in batch]))

        observed = arms[:-1] if case % 4 else arms                # sometimes one arm never gets a row in fit
        train("fit", rows(20 if scale else 6 + case % 5, observed))
        if not scale:
            for step in range(3 + case % 4):
                if step == 1 and case % 3 == 0:
                    mab.add_arm(9)
                    arms = arms + [9]
                n = 1 if step % 2 == 0 else rnd.randrange(2, 5)       # single-row online updates and small chunks
                train("partial_fit", rows(n, arms))
        Q = nrng.randn(4, d)
        if scale:
            Q[:, 0] = 5.0
            Q[:, 1] = 2.0 + 1e-4 * nrng.randn(4)
        got = mab.predict_expectations(Q)
        counters["wide_cases"] = counters.get("wide_cases", 0) + 1
        for arm in arms:
            beta, Ainv, mu, sd, n = oracle(history, arm, lam, d, scale)
            for i in range(len(Q)):
                x = (Q[i] - mu) / sd if n else Q[i]
                want = float(x @ beta)
                if kind == "ucb":
                    if n == 0:
                        continue                 # covariance of a never-observed arm: decided by the exact model (known finding F2)
                    want += alpha * math.sqrt(float(x @ Ainv @ x))
                tol = 1e-5 if kind == "ts" else 1e-7
                if not terms.close(float(got[i][arm]), want, tol, tol):
                    findings.append({"clause": "result.linalg_wide", "op": "predict_expectations", "engine": "linwide", "path": [],
                                     "detail": "d=%d lambda=%s %s scale=%s: arm %r row %d: predict_expectations %r, "
                                               "numpy.linalg.solve on the arm's raw history (%d rows) gives %r"
                                               % (d, lam, kind, scale, arm, i + 1, got[i][arm], n, want),
                                     "label": where, "binding": {"lp": "lin-" + kind, "d": d, "scale": scale}})
                    break
            else:
                continue
            break
