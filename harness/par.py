"""C05: results do not depend on n_jobs, backend or scheduling.

Three bindings of spec/Par.tla to the code:
  A  CodePartition (TLC-checked arithmetic) versus imp._partition_contexts for many (n, n_jobs, cpu)
  B  every (partition, chunk start order, backend) TLC enumerates is executed by calling
     imp._predict_contexts chunk by chunk (on the shared object for threads / sequential, on a copy for
     processes) and compared with the whole batch and with every row alone; per-arm fit tasks in every order
  C  real joblib executions (threading, loky, multiprocessing) with the guarded hooks on: the recorded
     partition / chunk / seed events are validated by TracePar.tla and the results compared with n_jobs = 1
"""
import copy
import glob
import itertools
import json
import os
import random
import shutil
import subprocess
import sys
import tempfile

import numpy as np

from harness import nb, tlc
from harness.snap import snapshot, diff, same

INT32_MAX = np.iinfo(np.int32).max


def fitted_bandit(cfg, rnd, n_rows=14, extra_partial=True):
    mab = cfg.new()
    labels = list(cfg.arms)
    rewards = [0, 1] if cfg.lp == "ts" else [0, 1, 2, 3]

    def rows(n):
        out = [(rnd.choice(labels), rnd.choice(rewards), tuple(rnd.randrange(cfg.grid) for _ in range(cfg.dims)))
               for _ in range(n)]
        return out
    data = rows(n_rows)
    for i, a in enumerate(labels):                       # every arm observed, several distinct points
        data[i] = (a, data[i][1], data[i][2])
    d = np.asarray([cfg.cf.lm[a] for a, _, _ in data])
    r = np.asarray([cfg.cf.reward(x) for _, x, _ in data])
    c = np.asarray([x for _, _, x in data], dtype=float)
    mab.fit(d, r, c)
    if extra_partial:
        more = rows(4)
        mab.partial_fit(np.asarray([cfg.cf.lm[a] for a, _, _ in more]), np.asarray([cfg.cf.reward(x) for _, x, _ in more]),
                        np.asarray([x for _, _, x in more], dtype=float))
    return mab, (d, r, c)


def chunked(imp, rows, is_predict, seeds, part, started, backend):
    """Executes the chunks in the order TLC's schedule started them; reduces in chunk order."""
    starts = [0]
    for size in part:
        starts.append(starts[-1] + size)
    results = {}
    for w in started:
        s, e = starts[w - 1], starts[w]
        target = copy.deepcopy(imp) if backend == "procs" else imp
        results[w] = target._predict_contexts(rows[s:e], is_predict, seeds[s:e], s)
    out = []
    for w in range(1, len(part) + 1):
        out.extend(results[w])
    return out


def leg_b(cfgs, schedules, seed, findings, counters):
    rnd = random.Random(seed)
    for cfg in cfgs:
        mab, _ = fitted_bandit(cfg, rnd)
        imp = mab._imp
        try:        # the chunk-level entry point is internal: if it is gone or changed, leg C still decides
            probe = np.asarray([[0.0] * cfg.dims], dtype=float)
            copy.deepcopy(imp)._predict_contexts(probe, False, np.asarray([1]), 0)
        except Exception:  # noqa
            counters["projection_unavailable"] = counters.get("projection_unavailable", 0) + 1
            continue
        for m in sorted({s["m"] for s in schedules}):
            rows = np.asarray([[rnd.randrange(cfg.grid) for _ in range(cfg.dims)] for _ in range(m)], dtype=float)
            if m >= 2 and cfg.metric in ("seuclidean", "mahalanobis"):
                rows[-1] = [20.0 * cfg.grid * (-1) ** j for j in range(cfg.dims)]     # an outlier among the query rows
            seeds = copy.deepcopy(mab._rng).randint(INT32_MAX, size=m)
            for is_predict in (False, True):
                base_imp = copy.deepcopy(imp)
                whole = base_imp._predict_contexts(rows, is_predict, seeds, 0)
                alone = []
                for i in range(m):
                    alone.extend(copy.deepcopy(imp)._predict_contexts(rows[i:i + 1], is_predict, seeds[i:i + 1], i))
                counters["row_alone"] = counters.get("row_alone", 0) + m
                if not same(whole, alone):
                    findings.append(_finding(cfg, "rowlocal.alone", "rows handled one by one (each on a copy of the bandit, "
                                             "own seed) give %r, the whole batch %r" % (_s(alone), _s(whole)),
                                             {"m": m, "is_predict": is_predict, "rows": rows.tolist()}))
                for sched in schedules:
                    if sched["m"] != m:
                        continue
                    work = copy.deepcopy(imp)
                    got = chunked(work, rows, is_predict, seeds, sched["part"], sched["started"], sched["backend"])
                    counters["schedules"] = counters.get("schedules", 0) + 1
                    if not same(got, whole):
                        findings.append(_finding(cfg, "partition.differs", "partition %s (chunks started in order %s, backend "
                                                 "%s) gives %r, the whole batch %r" % (sched["part"], sched["started"],
                                                                                       sched["backend"], _s(got), _s(whole)),
                                                 {"m": m, "is_predict": is_predict, "sched": sched, "rows": rows.tolist()}))
                        break


def fit_orders(cfgs, seed, findings, counters):
    """Per-arm fit tasks in every order, with write sets recorded: only the task's own arm may be written."""
    rnd = random.Random(seed + 1)
    for cfg in cfgs:
        base = cfg.new()
        imp = base._imp
        target = imp
        # the object whose _fit_arm tasks run in parallel
        if not hasattr(target, "arm_to_expectation") or cfg.np not in ("tree", None):
            continue
        _, (d, r, c) = fitted_bandit(cfg, rnd)
        arms = list(base.arms)
        ref = None
        for order in itertools.permutations(arms):
            work = copy.deepcopy(imp)
            if cfg.np == "tree" and cfg.lp == "ts":
                pass
            for arm in order:
                before = snapshot(work, rng=False)
                work._fit_arm(arm, d, r, c)
            snap = snapshot(work, rng=False)
            counters["fit_orders"] = counters.get("fit_orders", 0) + 1
            if ref is None:
                ref = snap
            elif snap != ref:
                findings.append(_finding(cfg, "fitorder.differs", "per-arm fit tasks in order %s give a different model: %s"
                                         % (list(order), "; ".join(diff(ref, snap))), {"order": list(order)}))
                break


def fit_orders_cf(seed, findings, counters):
    """The same for the context-free and linear policies: _parallel_fit hands one _fit_arm task per arm to the workers, in
    any completion order (Inv_C05_FitOrder); everything that depends on several arms belongs after the tasks."""
    from harness.cf import CFBinding
    from mabwiser.mab import MAB, LearningPolicy as LP
    rnd = random.Random(seed + 5)
    arms = [10, 20, 5]
    d = np.asarray([10, 20, 5] + [rnd.choice(arms) for _ in range(7)])
    r = np.asarray([float(rnd.choice([0, 1, 2, 3])) for _ in d])
    c = np.asarray([[float(rnd.randrange(3)), float(rnd.randrange(3))] for _ in d])
    cases = [(lp, CFBinding(lp).policy(), False) for lp in ("eg", "ucb1", "softmax", "pop", "ts")]
    cases += [("lin-ucb", LP.LinUCB(1.0, 0.5), True), ("lin-ts", LP.LinTS(0.5, 1.0), True)]
    for lp, policy, contextual in cases:
        rewards = (r > 1).astype(float) if lp == "ts" else r
        args = (d, rewards, c) if contextual else (d, rewards)
        for fitted in (False, True):
            mab = MAB(list(arms), policy, seed=3)
            if fitted:
                mab.fit(*[a[:4] for a in args])
            ref = None
            for order in itertools.permutations(arms):
                work = copy.deepcopy(mab._imp)

                def tasks(decisions, rewards_, contexts=None, work=work, order=order):
                    for arm in order:                      # the workers complete the per-arm tasks in this order
                        work._fit_arm(arm, decisions, rewards_, contexts)
                work._parallel_fit = tasks
                (work.partial_fit if fitted else work.fit)(*args)
                del work._parallel_fit
                snap = snapshot(work, rng=False)
                counters["fit_orders"] = counters.get("fit_orders", 0) + 1
                if ref is None:
                    ref = snap
                elif snap != ref:
                    findings.append({"clause": "fitorder.differs", "op": "fit", "engine": "par", "path": [],
                                     "label": {"order": list(order), "tags": []}, "binding": {"lp": lp, "np": None},
                                     "detail": "%s (%s): per-arm fit tasks completed in order %s give a different model than in "
                                               "order %s: %s" % (lp, "fitted" if fitted else "fresh", list(order), arms,
                                                                 "; ".join(diff(ref, snap)))})
                    break


def _finding(cfg, clause, detail, where):
    tags = []
    if cfg.np == "tree" and (cfg.lp == "ts" or (cfg.lp == "eg" and cfg.epsilon > 0)):
        tags.append("tree_leaf_policy_uses_main_generator")
    if cfg.np == "clusters" and cfg.lp.startswith("lin-ts"):
        tags.append("clusters_lints_stale_model_generator")
    where = dict(where)
    where["tags"] = tags
    return {"clause": clause, "detail": detail, "op": "predict", "label": where, "path": [], "binding": cfg.describe(),
            "engine": "par"}


def _s(v):
    text = repr(v)
    return text if len(text) < 260 else text[:260] + "..."


# ---------------------------------------------------------------------------
# leg A: partition arithmetic
def partition_table(findings, counters):
    import multiprocessing as mp
    from unittest import mock
    from mabwiser.mab import MAB, LearningPolicy
    calls = []
    for cpu in (1, 2, 16):
        with mock.patch.object(mp, "cpu_count", return_value=cpu):
            for nj in list(range(1, 21)) + [33, 64, 65, 66] + [-j for j in (1, 2, 3, 4, 15, 16, 17, 18, 66)]:
                mab = MAB([1, 2], LearningPolicy.EpsilonGreedy(0), n_jobs=nj)
                imp = mab._imp
                for n in list(range(1, 41)) + [63, 64]:
                    try:
                        k, sizes, starts = imp._partition_contexts(n)
                    except (AttributeError, TypeError, ValueError):
                        counters["projection_unavailable"] = counters.get("projection_unavailable", 0) + 1
                        return calls
                    calls.append({"n": n, "nj": nj, "cpu": cpu, "part": {"k": int(k), "sizes": [int(x) for x in sizes],
                                                                          "starts": [int(x) for x in starts]},
                                  "seeds": list(range(n)),
                                  "chunks": [{"start": int(starts[i]), "len": int(sizes[i]),
                                              "seeds": list(range(int(starts[i]), int(starts[i]) + int(sizes[i])))}
                                             for i in range(int(k))]})
    counters["partition_calls"] = len(calls)
    return calls


def validate_calls(calls, timeout=900):
    """TracePar.tla over a list of recorded calls: returns (result, ok ids, {id: failing clause})."""
    handle, path = tempfile.mkstemp(prefix="partrace_", suffix=".json")
    try:
        with os.fdopen(handle, "w") as out:
            json.dump([{k: c[k] for k in ("n", "nj", "cpu", "part", "seeds", "chunks")} for c in calls], out)
        result = tlc.run("TracePar", dict(MaxRows=1, Backends={"seq"}, Arms={"a"}, Dev=set()), init="TInit", next_="TNext",
                         view=None, constraint=None, workers=1, timeout=timeout, env={"TRACE_FILE": path})
    finally:
        os.unlink(path)
    ok, fails = set(), {}
    for line in result.raw.splitlines():
        line = line.strip()
        if line.startswith('<<"OK"'):
            ok.add(int(line.split(",")[1].strip(" >")))
        elif line.startswith('<<"FAIL"'):
            parts = [p.strip(' <>"') for p in line.split(",")]
            fails.setdefault(int(parts[1]), parts[2])
    return result, ok, fails


# ---------------------------------------------------------------------------
# leg C: real joblib executions in a sub-process with the hooks on
WORKER = r'''
import json, os, sys, copy, random, warnings
warnings.filterwarnings("ignore")
import numpy as np
sys.path.insert(0, os.environ["VERIF_ROOT"])
from harness import nb, par
from harness.snap import snapshot
spec = json.loads(sys.argv[1])
out = {"runs": []}
rnd0 = random.Random(spec["seed"])
for cfgkw in spec["cfgs"]:
    ref = None
    for nj, backend in spec["jobs"]:
        kw = dict(cfgkw); kw["n_jobs"] = nj; kw["backend"] = backend
        cfg = nb.NbConfig(**kw) if kw.get("np_") else None
        rnd = random.Random(spec["seed"])
        if cfg is None:
            mab, data = par.fitted_plain(kw, rnd)
        else:
            mab, data = par.fitted_bandit(cfg, rnd)
        m = spec["rows"]
        rows = [[float(rnd.randrange(3)) for _ in range(kw.get("dims", 2))] for _ in range(m)]
        expected = [int(s) for s in copy.deepcopy(mab._rng).randint(np.iinfo(np.int32).max, size=m)]
        marker = {"marker": "call", "cfg": kw, "n": m, "nj": nj, "seeds": expected, "pid": os.getpid()}
        with open(os.path.join(os.environ["MABWISER_VERIF_DIR"], "markers.jsonl"), "a") as h:
            h.write(json.dumps(marker) + "\n")
        r1 = mab.predict_expectations(rows)
        with open(os.path.join(os.environ["MABWISER_VERIF_DIR"], "markers.jsonl"), "a") as h:
            h.write(json.dumps({"marker": "end"}) + "\n")
        r2 = mab.predict(rows)
        r3 = mab.predict_expectations(rows[:1])
        model = repr(snapshot(mab._imp, rng=False, skip=("n_jobs", "backend", "arm_to_expectation") if kw.get("lp") == "ts" else ("n_jobs", "backend")))
        out["runs"].append({"cfg": kw, "nj": nj, "backend": backend, "res": repr((r1, r2, r3)), "model": model})
print("RESULT " + json.dumps(out))
'''


def fitted_plain(kw, rnd):
    """Context-free / linear bandit without neighbourhood policy (parallel fit only)."""
    from harness.cf import CFBinding
    from mabwiser.mab import MAB, LearningPolicy as LP
    lp = kw["lp"]
    arms = [10, 20, 5]
    n_jobs, backend = kw["n_jobs"], kw["backend"]
    if lp.startswith("lin"):
        policy = {"lin-ucb": LP.LinUCB(1.25, 0.5), "lin-ts": LP.LinTS(0.5, 2.0), "lin-greedy": LP.LinGreedy(0.3, 1.0)}[lp]
    else:
        policy = CFBinding(lp, epsilon=0.3 if lp == "eg" else 0.0).policy()
    mab = MAB(arms, policy, seed=11, n_jobs=n_jobs, backend=backend)
    n = 16
    d = np.asarray([rnd.choice(arms) for _ in range(n)])
    r = np.asarray([float(rnd.choice([0, 1])) for _ in range(n)])
    c = np.asarray([[float(rnd.randrange(3)) for _ in range(kw.get("dims", 2))] for _ in range(n)])
    if lp.startswith("lin"):
        mab.fit(d, r, c)
        mab.partial_fit(d[:5], r[:5], c[:5])
    else:
        mab.fit(d, r)
        mab.partial_fit(d[:5], r[:5])
    return mab, (d, r, c)


def leg_c(cfgs, jobs, rows, seed, findings, counters, root):
    """Runs the worker in a sub-process with hooks on; returns the calls recorded for TracePar."""
    directory = tempfile.mkdtemp(prefix="parhooks_")
    try:
        env = dict(os.environ)
        env.update({"MABWISER_VERIF": "1", "MABWISER_VERIF_SINK": "harness.hooksink:emit", "MABWISER_VERIF_DIR": directory,
                    "VERIF_ROOT": root, "PYTHONPATH": root + os.pathsep + env.get("PYTHONPATH", ""),
                    "OMP_NUM_THREADS": "1", "OPENBLAS_NUM_THREADS": "1", "MKL_NUM_THREADS": "1"})
        spec = {"cfgs": cfgs, "jobs": jobs, "rows": rows, "seed": seed}
        proc = subprocess.run([sys.executable, "-c", WORKER, json.dumps(spec)], env=env, stdout=subprocess.PIPE,
                              stderr=subprocess.PIPE, timeout=1500)
        text = proc.stdout.decode()
        line = next((l for l in text.splitlines() if l.startswith("RESULT ")), None)
        if line is None:
            raise RuntimeError("joblib worker failed: %s" % proc.stderr.decode()[-2000:])
        out = json.loads(line[7:])
        # results against n_jobs = 1
        by_cfg = {}
        for run in out["runs"]:
            key = json.dumps({k: v for k, v in run["cfg"].items() if k not in ("n_jobs", "backend")}, sort_keys=True)
            by_cfg.setdefault(key, []).append(run)
        for key, runs in by_cfg.items():
            ref = runs[0]
            for run in runs[1:]:
                counters["joblib_runs"] = counters.get("joblib_runs", 0) + 1
                for part in ("res", "model"):
                    if run[part] != ref[part]:
                        cfg = _CfgView(run["cfg"])
                        findings.append(_finding(cfg, "joblib." + part, "n_jobs=%s backend=%s: %s differs from n_jobs=%s backend=%s"
                                                 "\n  got  %s\n  want %s" % (run["nj"], run["backend"],
                                                                           "results" if part == "res" else "fitted model",
                                                                           ref["nj"], ref["backend"], run[part][:300], ref[part][:300]),
                                                 {"nj": run["nj"], "backend": run["backend"]}))
                        break
        return collect_calls(directory)
    finally:
        shutil.rmtree(directory, ignore_errors=True)


class _CfgView:
    def __init__(self, kw):
        self.kw = kw
        self.np = kw.get("np_")
        self.lp = kw.get("lp")
        self.epsilon = kw.get("epsilon", 0.0)

    def describe(self):
        return {"np": self.np, "lp": self.lp, "epsilon": self.epsilon, "cfg": self.kw}


def collect_calls(directory):
    """Joins marker lines (expected seeds, from the driver) with hook events of all processes."""
    import multiprocessing as mp
    events = []
    for path in glob.glob(os.path.join(directory, "events_*.jsonl")):
        with open(path) as handle:
            events.extend(json.loads(line) for line in handle if line.strip())
    markers = [json.loads(line) for line in open(os.path.join(directory, "markers.jsonl"))]
    calls = []
    main_events = {}
    for e in events:
        main_events.setdefault(e["pid"], []).append(e)
    for pid in main_events:
        main_events[pid].sort(key=lambda e: e["seq"])
    # driver process events, in order: each marker "call" is followed by exactly one outer _parallel_predict
    call_markers = [m for m in markers if m.get("marker") == "call"]
    if not call_markers:
        return calls
    driver = call_markers[0]["pid"]
    stream = main_events.get(driver, [])
    outer = [i for i, e in enumerate(stream) if e["name"] == "BaseMAB._parallel_predict" and e["phase"] == "begin"]
    # the worker makes three predict calls per marker; the first belongs to the marker
    per_call = 3
    ptr = 0
    for mk in call_markers:
        if not mk["cfg"].get("np_"):
            continue                  # no neighbourhood policy: prediction does not go through _parallel_predict
        if ptr >= len(outer):
            break
        begin = outer[ptr]
        ptr += per_call
        end = next((j for j in range(begin, len(stream)) if stream[j]["name"] == "BaseMAB._parallel_predict"
                    and stream[j]["phase"] in ("end", "exception")), len(stream))
        segment = stream[begin:end]
        part = next((e for e in segment if e["name"] == "BaseMAB._partition_contexts" and e["phase"] == "end"), None)
        if part is None or "result" not in part:
            continue
        k, sizes, starts = part["result"]
        lo, hi = stream[begin]["seq"], stream[end]["seq"] if end < len(stream) else 10 ** 12
        chunks = []
        for pid, evs in main_events.items():
            for e in evs:
                if not (e["name"].endswith("._predict_contexts") and e["phase"] == "begin"):
                    continue
                if pid == driver and not (lo < e["seq"] < hi):
                    continue
                args = e["args"]
                if len(args) >= 4 and isinstance(args[2], dict) and "ints" in args[2]:
                    chunks.append({"pid": pid, "start": args[3], "len": args[0].get("shape", [0])[0], "seeds": args[2]["ints"]})
        backend = mk["cfg"].get("backend")
        in_process = mk["nj"] == 1 or backend == "threading"
        if in_process:
            chunks = [c for c in chunks if c["pid"] == driver]
        else:
            # worker processes are reused across calls and runs of one scenario share their seeds: keep, once each,
            # the worker chunks that belong to this call's partition and carry this call's seeds
            want = mk["seeds"]
            mine, seen = [], set()
            for c in chunks:
                key = (c["start"], c["len"])
                if c["pid"] == driver:
                    mine.append(c)
                elif key not in seen and c["start"] in starts[:-1] and c["len"] == sizes[starts.index(c["start"])] \
                        and c["seeds"] == want[c["start"]:c["start"] + c["len"]]:
                    seen.add(key)
                    mine.append(c)
            chunks = mine
        calls.append({"n": mk["n"], "nj": mk["nj"], "cpu": mp.cpu_count(), "part": {"k": k, "sizes": sizes, "starts": starts},
                      "seeds": mk["seeds"], "chunks": [{"start": c["start"], "len": c["len"], "seeds": c["seeds"]} for c in chunks],
                      "cfg": mk["cfg"]})
    return calls
