"""Evaluation of the specification's exact values and symbolic terms.

The specification computes everything rational exactly (means, shares, ridge solutions); the few
irrational steps of the documented formulas (sqrt, log, exp) stay symbolic and are evaluated here, once
per term, from exact operands.  This module has no state and knows nothing about the implementation.
"""
import math
from fractions import Fraction


def frac(value):
    """JSON image of a TLA+ rational <<n, d>> (or an integer) -> Fraction."""
    if isinstance(value, (list, tuple)):
        return Fraction(int(value[0]), int(value[1]))
    return Fraction(int(value))


def mean_value(term, unit):
    return float(frac(term) * unit)


def ucb1_value(term, unit, alpha):
    """[m, N, n]: mean + alpha * sqrt(2 ln N / n); the zero term (n = 0) is the neutral value 0."""
    n = int(term["n"])
    if n == 0:
        return 0.0
    mean = float(frac(term["m"]) * unit)
    return mean + alpha * math.sqrt((2 * math.log(int(term["N"]))) / n)


def softmax_value(term, unit, tau):
    """[m, ms]: exp((m - max ms) / tau) / sum_i exp((ms_i - max ms) / tau); empty ms = not yet computed (0)."""
    means = [frac(x) * unit for x in term["ms"]]
    if not means:
        return 0.0
    top = max(means)
    own = frac(term["m"]) * unit
    total = sum(math.exp(float(x - top) / tau) for x in means)
    return math.exp(float(own - top) / tau) / total


def close(a, b, rel=1e-9, abs_=1e-12):
    if a != a and b != b:
        return True
    if a != a or b != b:
        return False
    if math.isinf(a) or math.isinf(b):
        return a == b
    return abs(a - b) <= max(abs_, rel * max(abs(a), abs(b)))
