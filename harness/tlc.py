"""Running TLC: model/config generation, invocation under a timeout, output parsing.

Every TLC run gets its own scratch directory (removed afterwards); the specification modules are
read from /verif/spec.  Nothing here knows about MABWiser.
"""
import json
import os
import re
import shutil
import subprocess
import tempfile
import time

SPEC_DIR = os.path.join(os.path.dirname(os.path.dirname(os.path.abspath(__file__))), "spec")
JAR_CP = "/opt/veriftools/tla/tla2tools.jar:/opt/veriftools/tla/CommunityModules-deps.jar"


class TLCError(Exception):
    """Machinery failure (parse error, timeout, crash) - never a verdict."""


def tla(value):
    """Python value -> TLA+ expression."""
    if isinstance(value, bool):
        return "TRUE" if value else "FALSE"
    if isinstance(value, int):
        return str(value) if value >= 0 else "(%d)" % value
    if isinstance(value, str):
        return '"%s"' % value
    if isinstance(value, Raw):
        return value.text
    if isinstance(value, tuple):
        return "<<" + ", ".join(tla(v) for v in value) + ">>"
    if isinstance(value, list):
        return "<<" + ", ".join(tla(v) for v in value) + ">>"
    if isinstance(value, (set, frozenset)):
        return "{" + ", ".join(sorted(tla(v) for v in value)) + "}"
    if isinstance(value, dict):
        if not value:
            return "<<>>"
        if all(isinstance(k, str) for k in value):
            # function with string domain
            return "(" + " @@ ".join("(%s :> %s)" % (tla(k), tla(v)) for k, v in value.items()) + ")"
        return "(" + " @@ ".join("(%s :> %s)" % (tla(k), tla(v)) for k, v in value.items()) + ")"
    raise TypeError("cannot render %r" % (value,))


class Raw:
    def __init__(self, text):
        self.text = text


class Result:
    def __init__(self):
        self.ok = False              # TLC finished without reporting an error
        self.violated = None         # name of violated invariant / property, if any
        self.states = 0              # distinct states
        self.generated = 0           # states generated (transitions)
        self.depth = 0
        self.wall = 0.0
        self.edges = []              # decoded JSON objects printed by EmitOK
        self.prints = []             # other PrintT values (raw strings)
        self.coverage = {}           # action name -> (distinct, total)
        self.raw = ""
        self.trace = []              # counterexample states (raw text)
        self.cmd = ""


def _write_model(workdir, module, extends, constants, defs, cfg_lines, mcname="MC"):
    lines = ["---- MODULE %s ----" % mcname, "EXTENDS %s" % ", ".join(extends)]
    cfg = []
    for name, value in constants.items():
        lines.append("MC_%s == %s" % (name, tla(value)))
        cfg.append("CONSTANT %s <- MC_%s" % (name, name))
    for text in defs:
        lines.append(text)
    lines.append("====")
    with open(os.path.join(workdir, mcname + ".tla"), "w") as handle:
        handle.write("\n".join(lines) + "\n")
    with open(os.path.join(workdir, mcname + ".cfg"), "w") as handle:
        handle.write("\n".join(cfg + cfg_lines) + "\n")


def run(module, constants, invariants=(), properties=(), emit=False, view="View", constraint="Bound",
        init="Init", next_="Next", workers=None, timeout=600, simulate=None, seed=None, defs=(),
        extra_cfg=(), env=None, coverage=False, deadlock=False, extra_modules=(), keep=None, depth_first=False):
    """Model-check `module` (a file in spec/) with the given constant substitution."""
    workdir = tempfile.mkdtemp(prefix="tlc_")
    try:
        for name in os.listdir(SPEC_DIR):
            if name.endswith(".tla"):
                shutil.copy(os.path.join(SPEC_DIR, name), workdir)
        cfg = ["INIT %s" % init, "NEXT %s" % next_]
        if view:
            cfg.append("VIEW %s" % view)
        if constraint:
            cfg.append("CONSTRAINT %s" % constraint)
        if emit:
            cfg.append("ACTION_CONSTRAINT %s" % (emit if isinstance(emit, str) else "EmitOK"))
        for inv in invariants:
            cfg.append("INVARIANT %s" % inv)
        for prop in properties:
            cfg.append("PROPERTY %s" % prop)
        cfg.append("CHECK_DEADLOCK %s" % ("TRUE" if deadlock else "FALSE"))
        cfg.extend(extra_cfg)
        _write_model(workdir, module, [module] + list(extra_modules), constants, defs, cfg)
        if workers is None:
            workers = 1 if emit else min(16, os.cpu_count() or 1)
        java = ["java", "-XX:+UseParallelGC", "-Xmx6g"]
        if depth_first:
            java.append("-Dtlc2.tool.queue.IStateQueue=StateDeque")
        cmd = java + ["-cp", JAR_CP, "tlc2.TLC", "-workers", str(workers), "-metadir",
                      os.path.join(workdir, "meta"), "-noGenerateSpecTE", "-config", "MC.cfg"]
        if coverage:
            cmd += ["-coverage", "1"]
        if simulate:
            cmd += ["-simulate", simulate]
        if seed is not None:
            cmd += ["-seed", str(seed)]
        cmd.append("MC.tla")
        result = Result()
        result.cmd = " ".join(cmd)
        environ = dict(os.environ)
        if env:
            environ.update(env)
        start = time.time()
        try:
            proc = subprocess.run(cmd, cwd=workdir, stdout=subprocess.PIPE, stderr=subprocess.STDOUT,
                                  timeout=timeout, env=environ)
        except subprocess.TimeoutExpired as error:
            raise TLCError("TLC timed out after %ss: %s" % (timeout, module)) from error
        result.wall = time.time() - start
        out = proc.stdout.decode("utf-8", "replace")
        result.raw = out
        if keep:
            with open(keep, "w") as handle:
                handle.write(out)
        _parse(out, result)
        if proc.returncode != 0 and result.violated is None:
            # exit codes: 12 = safety violation, 13 = liveness; others = errors
            tail = "\n".join(out.splitlines()[-40:])
            raise TLCError("TLC failed (exit %d) on %s:\n%s" % (proc.returncode, module, tail))
        result.ok = proc.returncode == 0
        return result
    finally:
        shutil.rmtree(workdir, ignore_errors=True)


_STATS = re.compile(r"(\d+) states generated, (\d+) distinct states found")
_SIM = re.compile(r"The number of states generated: (\d+)")
_DEPTH = re.compile(r"The depth of the complete state graph search is (\d+)")
_INV = re.compile(r"Error: Invariant (\S+) is violated")
_PROP = re.compile(r"Error: Action property (\S+) is violated")
_PROP2 = re.compile(r"Error: Temporal properties were violated")
_COV = re.compile(r"^<(\w+) line (\d+), col (\d+) to line \d+, col \d+ of module (\w+)>: (\d+):(\d+)")


def _parse(out, result):
    in_trace = False
    for line in out.splitlines():
        if line.startswith('"{') or line.startswith('"['):
            try:
                result.edges.append(json.loads(json.loads(line)))
                continue
            except ValueError:
                pass
        match = _STATS.search(line)
        if match:
            result.generated = int(match.group(1))
            result.states = int(match.group(2))
        match = _SIM.search(line)
        if match:
            result.generated = int(match.group(1))
            result.states = max(result.states, len(result.edges))
        match = _DEPTH.search(line)
        if match:
            result.depth = int(match.group(1))
        match = _INV.search(line)
        if match:
            result.violated = match.group(1)
            in_trace = True
        match = _PROP.search(line)
        if match:
            result.violated = match.group(1)
            in_trace = True
        if _PROP2.search(line):
            result.violated = result.violated or "temporal"
            in_trace = True
        match = _COV.match(line)
        if match:
            result.coverage[match.group(1)] = (int(match.group(5)), int(match.group(6)))
        if in_trace:
            result.trace.append(line)
        if line.startswith("<<") or line.startswith("[") and not in_trace:
            result.prints.append(line)
    return result
