"""Per-property checks: which models, bounds, bindings and clauses decide each property."""
import json
import os

from harness import engine_cf as ecf
from harness import engine_nb as enb
from harness.common import Machinery

CF_LPS = ["eg", "ucb1", "softmax", "pop", "ts", "random"]
WARM_LPS = ["eg", "ucb1", "softmax", "pop", "ts"]
FULL_OPS = {"fit", "partial_fit", "add_arm", "remove_arm", "predict", "predict_expectations"}


def bindings_for(lp, tier, seed, want=2):
    """Concrete readings of the abstract labels/rewards; rotated by the seed in the quick tier."""
    if lp == "ts":
        pool = [dict(labelmap="int", unit=1, dtype="int"), dict(labelmap="str", unit=1, dtype="float"),
                dict(labelmap="float", unit=1, dtype="float", container="list"), dict(labelmap="int", unit=1, dtype="bool")]
    else:
        pool = [dict(labelmap="int", unit=1, dtype="float"), dict(labelmap="str", unit="1/4", dtype="float"),
                dict(labelmap="float", unit=1, dtype="int", container="list"),
                dict(labelmap="int", unit="1/4", dtype="float", container="series"),
                dict(labelmap="str", unit=1, dtype="int"),
                dict(labelmap="int", unit=80, dtype="uint8"),          # 0, 80, 240: two rows of one arm exceed the dtype's range
                dict(labelmap="str", unit=10000, dtype="int16")]
    if tier == "thorough":
        return pool
    k = seed % len(pool)
    return [pool[(k + i) % len(pool)] for i in range(min(want, len(pool)))]


def cf_jobs(lps, tier, seed, ops=FULL_OPS, over=None, checks=None, invariants=None, properties=None, sims=True,
            bfs=True, tag="", eps=None):
    jobs = []
    over = dict(over or {})
    for lp in lps:
        binds = bindings_for(lp, tier, seed)
        if eps is not None and lp == "eg":
            binds = [dict(b, epsilon=eps) for b in binds]
        common = dict(bindings=binds)
        if checks is not None:
            common["checks"] = checks
        if invariants is not None:
            common["invariants"] = invariants
        if properties is not None:
            common["properties"] = properties
        # depth 4 exhaustively only for the smaller alphabets: with warm_start / reject / several query sizes the emitting TLC
        # run does not finish in the time allowed; the simulation walks of the same model go to depth 9
        small = len(ops) <= 6 and len(over.get("QueryRows", {0})) <= 2 and "reject" not in ops
        depth = over.get("MaxDepth", 4 if tier == "thorough" and small else 3)
        if bfs:
            o = dict(over)
            o.update(Ops=set(ops), MaxDepth=depth, MaxHist=over.get("MaxHist", 4 if tier == "thorough" else 3))
            if "Rewards" not in over and lp != "ts":
                o["Rewards"] = {0, 3}
            cb = dict(common)
            if tier == "quick":
                cb["bindings"] = binds[:1]
            jobs.append(dict(cb, name="%s%s-bfs%d" % (lp, tag, depth), consts=ecf.consts(lp, **o), mode="bfs",
                             timeout=3000 if tier == "thorough" else 900))
        if sims:
            n1, n2 = (400, 150) if tier == "thorough" else (100, 30)
            if tier == "quick":
                common = dict(common, bindings=binds[1:] or binds)
            o = dict(over)
            o.update(Ops=set(ops), MaxDepth=9, MaxHist=7, MaxBatch=1)
            jobs.append(dict(common, name="%s%s-sim1" % (lp, tag), consts=ecf.consts(lp, **o), mode="sim", sim_num=n1,
                             seed=seed))
            o = dict(over)
            o.update(Ops=set(ops), MaxDepth=7, MaxHist=8, MaxBatch=2)
            jobs.append(dict(common, name="%s%s-sim2" % (lp, tag), consts=ecf.consts(lp, **o), mode="sim", sim_num=n2,
                             seed=seed + 1))
    return jobs


def by_clause(*prefixes, ops=None):
    def keep(finding):
        if ops is not None and finding.get("op") not in ops:
            return False
        return any(finding.get("clause", "").startswith(p) for p in prefixes)
    return keep


def either(*preds):
    return lambda finding: any(p(finding) for p in preds)


def negatives(report, items):
    todo = items if report.tier == "thorough" else items[: 1 + report.seed % 2] if items else []
    for lp, dev, expect, over in todo:
        ecf.negative(report, lp, dev, expect, over)


# ---------------------------------------------------------------------------
def c01(report):
    report.nontrivial_rule = ("spec edges (fit/partial_fit/add_arm/remove_arm/queries) replayed on a real MAB; "
                              "non-trivial = distinct (policy, call path) whose batch omits an arm or follows an arm change")
    jobs = cf_jobs(CF_LPS, report.tier, report.seed, eps=None, checks=("state", "result"))
    for job in jobs:        # rewards in narrow numpy dtypes (uint8, int16, bool): per-arm sums must not wrap
        lp = job["consts"]["LP"]
        if job["mode"] == "bfs" and lp != "random":
            narrow = [dict(labelmap="int", unit=1, dtype="bool")] if lp == "ts" else \
                [dict(labelmap="int", unit=80, dtype="uint8"), dict(labelmap="str", unit=10000, dtype="int16")][report.seed % 2:][:1]
            job["bindings"] = job["bindings"] + narrow
    jobs += cf_jobs(["eg"], report.tier, report.seed, bfs=False, tag="-eps", eps=0.5, checks=("state", "result"))
    # Thompson with a binarizer that is not the identity on {0, 1}: successes / failures are those of the converted history
    jobs += cf_jobs(["ts"], report.tier, report.seed, bfs=False, tag="-flip", checks=("state", "result"),
                    over=dict(InitBin="flip", Rewards={0, 1}, NewBins={"keep", "thr"}, QueryRows={0}))
    ecf.run_jobs(report, jobs, either(by_clause("state.acc", "state.total", "state.expv", "result.sampler"),
                                      by_clause("call.exception", ops={"fit", "partial_fit", "add_arm", "remove_arm",
                                                                       "predict_expectations"})))
    # leg C: long recorded histories with wide values (2-6 arms, batches up to 50 rows, large / negative / fractional rewards)
    from harness import mabtrace
    mabtrace.run(report, ["eg", "ucb1", "softmax", "pop", "ts"], report.seed, 400 if report.tier == "thorough" else 40,
                 80 if report.tier == "thorough" else 40, by_clause("mabtrace"))
    negatives(report, [("pop", "PopStaleNorm", "Inv_C01_Term", None), ("softmax", "SoftmaxNoRenormOnDrop", "Inv_C01_Term", None),
                       ("pop", "PopNoRenormOnDrop", "Inv_C01_Term", None), ("ucb1", "UcbNoRefreshAbsent", "Inv_C01_Term", None),
                       ("ucb1", "UcbBatchN", "Inv_C01_Term", None), ("eg", "FitKeepsSums", "Inv_C01_Acc", None)])
    _nontrivial_from_counts(report)
    report.assumptions += ["rewards are integers times a dyadic unit so that sums are exact in IEEE arithmetic",
                           "randomised policies are compared with the documented sampler run on a clone of the "
                           "bandit's generator (equality of draws, not a statistical test)"]


def c06(report):
    report.nontrivial_rule = "pairs of call sequences (different chunkings) reaching the same documented state"
    ops = {"fit", "partial_fit", "predict_expectations"}
    jobs = cf_jobs(CF_LPS, report.tier, report.seed, ops=ops, over=dict(QueryRows={0}, MaxHist=4), checks=("state", "confluence"))
    ecf.defer(jobs, either(by_clause("confluence"),
                                      by_clause("state.acc", "state.total", "state.expv", "call.exception",
                                                ops={"partial_fit"})))
    negatives(report, [("pop", "PopStaleNorm", "Inv_C01_Term", None), ("ucb1", "UcbBatchN", "Inv_C01_Term", None)])
    ljobs = life_jobs(report.tier, report.seed, {"fit", "partial_fit", "predict_expectations"}, depth=5,
                      over=dict(QueryRows={2}, Offsets={0}, MaxChunk=3, MaxHist=6), only=lambda c: c[1] != "tree", tag="-c06",
                      checks=("state", "confluence"))
    ecf.defer(ljobs, either(by_clause("confluence", "state.history"),
                                       by_clause("call.exception", ops={"partial_fit"})))
    # Thompson Sampling with an arm-dependent binarizer: chunked training must convert each reward with its own arm
    bjobs = life_jobs(report.tier, report.seed, {"fit", "partial_fit", "predict_expectations"}, depth=5,
                      over=dict(QueryRows={2}, Offsets={0}, MaxChunk=3, MaxHist=6), only=lambda c: c[0] == "ts" and c[1] != "tree",
                      tag="-c06bin", checks=("state", "confluence"), extra=dict(bin_name="thr"), sims=False)
    ecf.defer(bjobs, by_clause("confluence", "state.history", "call.exception"))
    ecf.flush(report)
    _nontrivial_from_counts(report, "cf.confluent")


def c07(report):
    report.nontrivial_rule = "fit edges out of non-initial states compared with a freshly constructed bandit"
    ops = FULL_OPS | {"warm_start"}
    jobs = cf_jobs(CF_LPS, report.tier, report.seed, ops=ops, over=dict(QueryRows={0, 2}), checks=("state", "fresh"))
    ecf.defer(jobs, either(by_clause("fresh"), by_clause("state.", "call.exception", ops={"fit"})))
    negatives(report, [("eg", "FitKeepsSums", "Prop_C07_FitIsFresh", None), ("ucb1", "UcbTotalAccumulates", "Prop_C07_FitIsFresh", None),
                       ("ts", "FitKeepsStatus", "Prop_C07_FitIsFresh", dict(Ops=FULL_OPS | {"warm_start"}))])
    ljobs = life_jobs(report.tier, report.seed, FULL_OPS | {"warm_start"}, tag="-c07", checks=("state", "fresh"),
                      depth=None if report.tier == "thorough" else 3, over=dict(WideOffsets={100}))
    # single-feature data with pandas Series contexts, refit on data with two feature columns and back
    sjobs = life_jobs(report.tier, report.seed + 3, {"fit", "partial_fit", "predict", "predict_expectations"}, tag="-c07series",
                      checks=("state", "fresh"), depth=4, over=dict(WideOffsets={100}, Offsets={0}, QueryRows={1, 3}), sims=False,
                      only=lambda c: c[1] in ("radius", "knearest", "tree", "lsh") or c[0].startswith("lin-"),
                      extra=dict(dims=1, container="series1"))
    ecf.defer(sjobs, either(by_clause("fresh"), by_clause("state.", "call.exception")))
    ecf.defer(ljobs, either(by_clause("fresh"), by_clause("state.", "call.exception", ops={"fit"})))
    ecf.flush(report)
    ecf.life_negative(report, "FitKeepsRows", "Prop_C07_FitIsFresh")
    _nontrivial_from_counts(report, "cf.fresh")


def c08(report):
    report.nontrivial_rule = "edges after which arms / keys / result shapes were checked; non-trivial = follows an arm change"
    jobs = cf_jobs(CF_LPS, report.tier, report.seed, ops=FULL_OPS | {"warm_start"}, checks=("state", "shape"))
    ecf.defer(jobs, by_clause("shape", "state.keys", "state.arms"))
    nb_side(report, ("shape", "trace.post.arms", "trace.Inv_C08", "predict.exception"))
    arm_rejects = {"add_duplicate", "add_none", "add_nan", "add_inf", "remove_unknown", "add_binarizer_non_ts",
                   "add_binarizer_not_callable"}
    ljobs = life_jobs(report.tier, report.seed, FULL_OPS | {"warm_start", "reject"}, over=dict(QueryRows={1, 2, 3}), tag="-c08",
                      checks=("state", "shape"), rejects=True)
    for job in ljobs:
        job["consts"]["RejectKinds"] = set(job["consts"]["RejectKinds"]) & arm_rejects
    # arm churn: long alternations of add_arm / remove_arm / predict (a removed arm must never come back)
    churn = life_jobs(report.tier, report.seed + 2, {"fit", "add_arm", "remove_arm", "predict", "predict_expectations"},
                      over=dict(QueryRows={1, 3}, Offsets={0}, MaxChunk=2), depth=7 if report.tier == "thorough" else 6,
                      tag="-churn", checks=("state", "shape"), sims=False, only=lambda c: c[1] is None)
    for job in churn:
        job["consts"]["MinFit"] = 2
        job["query_after"] = {"fit"}          # what a query remembers must survive chains of arm changes
    ecf.defer(churn, by_clause("shape", "state.keys", "state.arms", "state.policy", "call.exception"))
    ecf.defer(ljobs, by_clause("shape", "state.keys", "state.arms", "state.policy", "call.exception"))
    ecf.flush(report)
    suite_leg(report, by_clause("suite.result", "suite.post.arms"))
    _nontrivial_from_counts(report, "cf.queries")


def c09(report):
    report.nontrivial_rule = "predict edges compared with the first maximiser of predict_expectations from the same stream position"
    jobs = cf_jobs(CF_LPS, report.tier, report.seed, ops=FULL_OPS | {"warm_start"}, over=dict(QueryRows={0, 1, 3}),
                   checks=("argmax", "result"))
    jobs += cf_jobs(["eg"], report.tier, report.seed, bfs=False, tag="-eps", eps=0.5, over=dict(QueryRows={0, 1, 3}),
                    checks=("argmax", "result"))
    ecf.defer(jobs, by_clause("argmax", "result.arm"))
    nb_side(report, ("argmax", "nonhood"), lps=("eg", "ucb1", "ts", "softmax"))
    ljobs = life_jobs(report.tier, report.seed, FULL_OPS | {"warm_start"}, over=dict(QueryRows={1, 3}), tag="-c09", checks=("argmax",))
    ecf.defer(ljobs, by_clause("argmax"))
    churn = life_jobs(report.tier, report.seed + 2, {"fit", "add_arm", "remove_arm", "predict"},
                      over=dict(QueryRows={1, 3}, Offsets={0}, MaxChunk=2), depth=7 if report.tier == "thorough" else 6,
                      tag="-churn", checks=("argmax",), sims=False, only=lambda c: c[1] is None)
    for job in churn:
        job["consts"]["MinFit"] = 2
        job["query_after"] = {"fit"}          # what a query remembers must survive chains of arm changes
    ecf.defer(churn, by_clause("argmax"))
    ecf.flush(report)
    _nontrivial_from_counts(report, "cf.queries")


def c10(report):
    report.nontrivial_rule = "query edges after which the deep snapshot of the bandit (minus random streams) was compared"
    jobs = cf_jobs(CF_LPS, report.tier, report.seed, ops=FULL_OPS | {"warm_start"}, over=dict(QueryRows={0, 1, 3}),
                   checks=("readonly",))
    ecf.defer(jobs, by_clause("readonly"))
    nb_side(report, ("readonly",))
    ljobs = life_jobs(report.tier, report.seed, FULL_OPS | {"warm_start"}, over=dict(QueryRows={1, 3}), tag="-c10", checks=("readonly",))
    ecf.defer(ljobs, by_clause("readonly"))
    ecf.flush(report)
    suite_leg(report, lambda f: f["clause"].startswith("suite.post") and f["op"] in ("predict", "predict_expectations")
              and f["label"].get("out") == "ok")
    _nontrivial_from_counts(report, "cf.queries")


def c13(report):
    report.nontrivial_rule = "warm_start edges (cold arms present) replayed; status, copied state and cold_arms compared"
    ops = {"fit", "partial_fit", "add_arm", "remove_arm", "warm_start", "predict_expectations"}
    jobs = []
    feats = ["std", "dup", "zero", "far"] if report.tier == "thorough" else ["std", "dup", "far"] + (["zero"] if report.seed % 3 == 0 else [])
    for feat in feats:
        # the "std" jobs switch between two feature maps from call to call (the caller updates its dictionary in place)
        over = dict(Feat=["std", "far"] if feat == "std" else feat, QueryRows={0}, Labels={"a", "b", "c", "d"},
                    InitArms=["a", "b", "c"], MaxBatch=1,
                    Quantiles={(0, 1), (1, 4), (1, 2), (1, 1)}, Rewards={1, 3})
        fj = cf_jobs(WARM_LPS, report.tier, report.seed, ops=ops, over=over, tag="-" + feat, sims=(feat == "std"),
                     checks=("state",))
        for job in fj:       # ties between equally distant trained arms: every label type, three calls deep, also in the quick tier
            if job["mode"] == "bfs" and feat != "std":
                lp = job["consts"]["LP"]
                job["bindings"] = bindings_for(lp, "quick", report.seed, want=3)
                job["consts"]["MaxDepth"] = max(job["consts"]["MaxDepth"], 4)
                job["consts"]["Ops"] = {"fit", "partial_fit", "warm_start", "predict_expectations"}
                job["consts"]["Quantiles"] = {(1, 2), (1, 1)}
        jobs += fj
    for job in jobs:
        if job["consts"]["LP"] == "ts":
            job["consts"]["Rewards"] = {0, 1}
    ecf.defer(jobs, either(by_clause("state.", "call.exception", ops={"warm_start"}),
                           by_clause("state.cold_arms", "state.status")))
    # a warm-started arm owns its copy: training it afterwards leaves the arm it was copied from untouched (linear policies
    # with and without standardisation, one independent model per arm)
    for scale in (False, True):
        wjobs = life_jobs(report.tier, report.seed + 4, {"fit", "partial_fit", "warm_start", "predict_expectations"},
                          checks=("state", "locality"), depth=5, sims=report.tier == "thorough", tag="-c13own%d" % scale,
                          over=dict(Offsets={0}, MaxChunk=2, QueryRows={3}, Quantiles={(1, 1)}),
                          only=lambda c: c[1] is None and c[0] in ("lin-ucb", "lin-greedy", "eg"), extra=dict(lin_scale=scale))
        ecf.defer(wjobs, by_clause("locality", "call.exception"))
    # linear policies: Lin.tla with warm_start (tie features a = b)
    ljobs = lin_jobs(report.tier, report.seed, ops={"fit", "partial_fit", "warm_start", "predict_expectations"}, checks=("state",),
                     tag="-c13", over=dict(InitArms=["a", "b", "c"], MaxDepth=4, QuerySets={((1, 1),)} ), scaled=False)
    for job in ljobs:
        d = job["consts"]["D"]
        if d == 1:
            job["consts"]["QuerySets"] = {((1,),)}
        if report.tier == "quick":      # few distinct rows: the subject is which arm is copied
            job["consts"]["Ctx"] = set(sorted(job["consts"]["Ctx"])[:2])
            job["consts"]["Rewards"] = {1} if job["mode"] == "bfs" else {-2, 1}
            job["consts"]["MaxBatch"] = 1
    ecf.defer(ljobs, either(by_clause("state.", "call.exception", ops={"warm_start"}), by_clause("state.cold_arms", "state.status")))
    ecf.flush(report)
    big = dict(Labels={"a", "b", "c", "d"}, InitArms=["a", "b", "c", "d"], Ops=set(ops), MaxBatch=1, Rewards={1, 3},
               Quantiles={(0, 1), (1, 2), (1, 1)}, MaxDepth=5, MaxHist=2)
    negatives(report, [("eg", "WarmFromWarm", "Prop_C13_WarmStart", big),
                       ("eg", "WarmThresholdStrict", "Inv_C13_Monotone|Prop_C13", dict(big, Feat="dup"))])
    _nontrivial_from_counts(report, "cf.op.warm_start")


def c14(report):
    report.nontrivial_rule = "Thompson edges with a binarizer installed (construction or add_arm); Beta parameters compared"
    jobs = []
    bins = ["thr", "flip", "ge2"] if report.tier == "thorough" else ["flip", ["thr", "ge2"][report.seed % 2]]
    for b in dict.fromkeys(bins):
        rewards = {0, 1} if b == "flip" else ({0, 2, 3} if report.tier == "thorough" else {2, 3})
        over = dict(InitBin=b, Rewards=rewards, NewBins={"keep", "flip" if b != "flip" else "thr"}, QueryRows={0})
        if report.tier == "thorough" and b != "flip":
            over["MaxDepth"] = 3          # three reward values: depth 4 is beyond TLC in the time allowed; the walks go deeper
        bj = cf_jobs(["ts"], report.tier, report.seed, over=over, tag="-" + b)
        for job in bj:        # integer-typed 0/1 rewards must be converted like any others
            if not any(x.get("dtype") == "int" for x in job["bindings"]):
                job["bindings"] = job["bindings"] + [dict(labelmap="int", unit=1, dtype="int")]
        jobs += bj
    ecf.defer(jobs, by_clause("state.acc", "state.bin", "call.exception", "fresh", "confluence"))
    # under every neighbourhood policy: a bandit with a binarizer against a bandit fed the converted rewards, same seed
    def variants(lp, np_, i):
        b = ["thr", "ge2"][(i + report.seed) % 2]
        nb = ["flip", "thr", "ge2"][(i + report.seed) % 3]
        return [dict(bin_name=b, addarm_bin=nb), dict(preconv=b, addarm_bin=nb)]
    xjobs = cross_jobs(report.tier, report.seed, variants, "exact", FULL_OPS, only=lambda c: c[0] == "ts", tag="-c14",
                       caller_check=True)        # converting in the caller's array would convert it again on its next use
    for job in xjobs:
        job["consts"]["EpochOnAdd"] = True
        for bkw in job["bindings"]:
            if bkw["np_"] is not None:
                bkw["n_jobs"] = 1
    ecf.defer(xjobs, by_clause("cross.", "call.exception", "caller."))
    # a bandit created WITHOUT a binarizer whose first binarizer arrives with add_arm, against pre-converted rewards
    def late(lp, np_, i):
        return [dict(bin_name="none", addarm_bin="flip", binary_rewards=True), dict(preconv="ident", addarm_bin="flip", binary_rewards=True)]
    ljobs = cross_jobs(report.tier, report.seed + 1, late, "exact", FULL_OPS, only=lambda c: c[0] == "ts", tag="-c14late", depth=5)
    for job in ljobs:
        job["consts"]["EpochOnAdd"] = True      # rows before / after the installing add_arm are different states
        for bkw in job["bindings"]:
            if bkw["np_"] is not None:
                bkw["n_jobs"] = 1
    ecf.defer(ljobs, by_clause("cross.", "call.exception"))
    ecf.flush(report)
    # recorded executions with a binarizer installed: the stored (converted) rewards and every query result are validated
    # by TraceNbhd.tla, whose history carries Binz(binarizer, arm, reward) applied exactly once
    nps = ["radius", "knearest", "lsh", "clusters", "tree"]
    variants = {np_: [dict(NB_VARIANTS[np_][(report.seed + j) % len(NB_VARIANTS[np_])], init_bin=b)
                      for j, b in enumerate(["thr", "ge2"] if report.tier == "quick" else ["thr", "ge2", "flip"])] for np_ in nps}
    for vs in variants.values():
        for v in vs:
            v.pop("unit", None)
            v.pop("no_nhood", None)
    njobs = enb.jobs_for(nps, ["ts"], report.tier, report.seed, variants, n=10 if report.tier == "quick" else 30)
    enb.run_jobs(report, njobs, lambda f: f["clause"].startswith(("trace.", "result.nbhd", "call.exception")))
    _nontrivial_from_counts(report, "cf.op.partial_fit")


def c17(report):
    report.nontrivial_rule = "rejected calls (fault class x position in a valid history) checked for exception and unchanged snapshot"
    jobs = []
    for lp in CF_LPS:
        kinds = set(ecf.REJECTS_CF)
        if lp == "ts":
            kinds |= {"ts_nonbinary", "add_binarizer_not_callable"}
            kinds -= {"add_binarizer_non_ts"}
        over = dict(RejectKinds=kinds, QueryRows={0}, Rewards={1, 3} if lp != "ts" else {0, 1})
        jobs += cf_jobs([lp], report.tier, report.seed, ops=FULL_OPS | {"reject", "warm_start"}, over=over, checks=("reject",))
    ecf.defer(jobs, by_clause("reject"))
    ljobs = life_jobs(report.tier, report.seed, FULL_OPS | {"warm_start", "reject"}, rejects=True, over=dict(QueryRows={1}),
                      only=lambda c: c[1] is not None or c[0].startswith("lin-"), tag="-c17", checks=("reject",))
    ecf.defer(ljobs, by_clause("reject"))
    ecf.flush(report)
    suite_leg(report, lambda f: f["clause"].startswith("suite.post") and f["label"].get("out") not in ("ok", "?"))
    _nontrivial_from_counts(report, "cf.rejects")


def c19(report):
    report.nontrivial_rule = "states at which deepcopy and pickle (protocols 2-5) clones were compared with the original"
    jobs = cf_jobs(CF_LPS, report.tier, report.seed, ops=FULL_OPS | {"warm_start"}, checks=("clone",))
    ecf.defer(jobs, by_clause("clone"))
    ljobs = life_jobs(report.tier, report.seed, FULL_OPS | {"warm_start"}, over=dict(QueryRows={1}), tag="-c19", checks=("clone",),
                      depth=None if report.tier == "thorough" else 3)
    ecf.defer(ljobs, by_clause("clone"))
    ecf.flush(report)
    _nontrivial_from_counts(report, "cf.clones")


# ---------------------------------------------------------------------------
# neighbourhood policies (Nbhd.tla + TraceNbhd.tla)
NB_VARIANTS = {
    "radius": [dict(metric="cityblock", radius=(2, 1), dims=2, n_jobs=2, backend="threading"),
               dict(metric="euclidean", radius=(1, 1), dims=2, labelmap="str", unit="1/4"),
               dict(metric="chebyshev", radius=(1, 1), dims=3, no_nhood=[1.0, 0.0]),
               dict(metric="sqeuclidean", radius=(2, 1), dims=2, grid=4, labelmap="float"),
               dict(metric="cityblock", radius=(1, 2), dims=1, grid=5, no_nhood=[0.0, 1.0]),
               # whole-number contexts given as an integer array to the first fit, half-integer rows afterwards
               dict(metric="cityblock", radius=(3, 2), dims=2, grid=6, ctx_unit="1/2", int_first=True)],
    "knearest": [dict(metric="cityblock", k=2, dims=2), dict(metric="euclidean", k=3, dims=2, labelmap="str"),
                 dict(metric="chebyshev", k=1, dims=1, grid=4, unit="1/4"),
                 dict(metric="sqeuclidean", k=3, dims=3, labelmap="float"),
                 dict(metric="euclidean", k=2, dims=2, grid=6, ctx_unit="1/2", int_first=True)],
    "lsh": [dict(n_tables=2, n_dims=2, dims=2), dict(n_tables=1, n_dims=1, dims=1, labelmap="str"),
            dict(n_tables=3, n_dims=3, dims=3, unit="1/4", n_jobs=2, backend="threading"),
            dict(n_tables=2, n_dims=2, dims=2, n_jobs=3, backend="threading", no_nhood=[0.0, 1.0], seed=5),
            dict(n_tables=1, n_dims=10, dims=3, grid=4, seed=3), dict(n_tables=2, n_dims=5, dims=2, grid=5)],
    "clusters": [dict(n_clusters=2, dims=2, n_jobs=2, backend="threading"), dict(n_clusters=3, dims=2, grid=4, labelmap="str"),
                 dict(n_clusters=2, minibatch=True, dims=1, grid=5, unit="1/4"),
                 dict(n_clusters=5, minibatch=True, dims=2, grid=2, n_jobs=3, backend="threading")],
    "tree": [dict(dims=2, n_jobs=2, backend="threading"), dict(tree_params={"max_depth": 1}, dims=2, labelmap="str"),
             dict(tree_params={"min_samples_leaf": 2}, dims=1, grid=5, unit="1/4", n_jobs=3, backend="threading")],
}


def nb_variants(tier, seed, nps, want=2, always=()):
    out = {}
    for np_ in nps:
        pool = NB_VARIANTS[np_]
        if tier == "thorough":
            out[np_] = pool
        else:
            pick = [pool[(seed + i) % len(pool)] for i in range(min(want, len(pool)))]
            out[np_] = pick + [pool[i] for i in always if i < len(pool) and pool[i] not in pick]
    return out


NB_TRACE = ("trace.", "result.nbhd", "nonhood", "predict.exception", "call.exception")


def nb_filter(nps, *prefixes):
    def keep(finding):
        return finding.get("binding", {}).get("np") in nps and any(finding["clause"].startswith(p) for p in prefixes)
    return keep


def c03(report):
    report.nontrivial_rule = ("recorded Radius/KNearest executions validated by TraceNbhd.tla; non-trivial = queries whose "
                              "result was compared with the TLC-computed documented neighbourhood")
    nps = ["radius", "knearest"]
    _parallel_exhaustive(report, nps)
    lps = ["eg", "ucb1", "ts", "softmax", "lin-ucb", "lin-ts"] if report.tier == "thorough" else \
        ["eg", "ucb1", ["ts", "softmax", "pop"][report.seed % 3], "lin-ucb"]
    jobs = enb.jobs_for(nps, lps, report.tier, report.seed, nb_variants(report.tier, report.seed, nps, want=9),
                        n=40 if report.tier == "thorough" else 8)
    enb.run_jobs(report, jobs, nb_filter(nps, *NB_TRACE))
    _nb_counts(report)
    report.assumptions += ["contexts are integer grid points and radii rationals so that boundary membership is exact",
                           "for KNearest any tie-valid k-set is accepted (the set of allowed results is computed by TLC)"]


def c11(report):
    report.nontrivial_rule = ("recorded LSHNearest executions validated by TraceNbhd.tla (tables, offsets, collision sets); "
                              "non-trivial = queries compared with the TLC-computed collision set")
    enb.exhaustive(report, "lsh", report.tier)
    if report.tier == "thorough" or report.seed % 2:
        enb.negative(report, "lsh", "LshNoOffset", "Inv_C11_Tables")
    if report.tier == "thorough" or not report.seed % 2:
        enb.negative(report, "lsh", "LshKeepTables", "Prop_C07_FitIsFresh|Inv_C11_Tables")
    lps = ["eg", "ucb1", "ts", "lin-ucb"] if report.tier == "thorough" else ["eg", ["ucb1", "ts", "lin-ucb"][report.seed % 3]]
    jobs = enb.jobs_for(["lsh"], lps, report.tier, report.seed,
                        nb_variants(report.tier, report.seed, ["lsh"], want=3, always=(4,)),
                        n=60 if report.tier == "thorough" else 14)
    enb.run_jobs(report, jobs, nb_filter(["lsh"], *NB_TRACE))
    _nb_counts(report)
    report.assumptions += ["signatures are recomputed by the harness from mab._imp.table_to_plane with the documented formula "
                           "sum_i 2^i [x.p_i > 0]; TLC checks they are a function of the context between two fits"]


def c12(report):
    report.nontrivial_rule = ("recorded Clusters/TreeBandit executions validated by TraceNbhd.tla (cells from the fitted "
                              "sklearn objects, leaf bookkeeping); non-trivial = queries compared with the TLC oracle")
    nps = ["clusters", "tree"]
    _parallel_exhaustive(report, nps)
    lps = ["eg", "ucb1", "ts"] if report.tier == "thorough" else ["eg", "ucb1"]
    jobs = enb.jobs_for(nps, lps, report.tier, report.seed, nb_variants(report.tier, report.seed, nps, want=2, always=(3,)
                                                                       if True else ()))
    jobs = [j for j in jobs if not (j["cfg"]["np_"] == "tree" and j["cfg"].get("minibatch"))]
    enb.run_jobs(report, jobs, nb_filter(nps, *NB_TRACE))
    _nb_counts(report)
    report.assumptions += ["k-means and CART fitting are scikit-learn's; the specification takes the cell / leaf of every row "
                           "and query from the fitted objects (kmeans.labels_, kmeans.predict, tree.apply)"]


def _parallel_exhaustive(report, nps):
    """The exhaustive Nbhd.tla runs are single-worker TLC processes: run them side by side."""
    import concurrent.futures
    from harness.common import Report
    parts = []
    with concurrent.futures.ThreadPoolExecutor(len(nps)) as pool:
        futures = []
        for np_ in nps:
            sub = Report(report.prop, report.tier, report.seed)
            parts.append(sub)
            futures.append(pool.submit(enb.exhaustive, sub, np_, report.tier))
        for f in futures:
            f.result()
    for sub in parts:
        report.states += sub.states
        report.transitions += sub.transitions
        report.tlc_runs += sub.tlc_runs


def nb_side(report, prefixes, lps=("eg", "ucb1", "ts")):
    """Neighbourhood coverage for the cross-cutting properties (shape, argmax, read-only)."""
    nps = ["radius", "knearest", "lsh", "clusters", "tree"]
    pick = list(lps) if report.tier == "thorough" else [lps[report.seed % len(lps)]]
    jobs = enb.jobs_for(nps, pick, report.tier, report.seed,
                        {k: [v[report.seed % len(v)]] for k, v in NB_VARIANTS.items()} if report.tier == "quick"
                        else NB_VARIANTS, n=30 if report.tier == "thorough" else 8)
    enb.run_jobs(report, jobs, lambda f: any(f["clause"].startswith(p) for p in prefixes))


def _nb_counts(report):
    report.evaluations = report.replayed + report.coverage.get("nb.events", 0)
    report.nontrivial = set(range(report.coverage.get("nb.queries_compared_with_tlc_oracle", 0)))


# ---------------------------------------------------------------------------
# linear policies (Lin.tla)
LIN_GRIDS = {
    1: dict(D=1, Ctx={(1,), (2,), (-1,), (3,)}, QuerySets={((1,),), ((2,), (-1,)), ((1,), (2,), (3,))}),
    2: dict(D=2, Ctx={(0, 1), (1, 0), (1, 1), (2, -1)}, QuerySets={((1, 1),), ((0, 1), (2, -1)), ((1, 0), (1, 1), (2, -1))}),
}


def lin_jobs(tier, seed, ops=None, checks=None, regs=("ridge", "ucb", "ts"), tag="", over=None, scaled=True):
    jobs = []
    lams = [(1, 2), (4, 1), (1, 1)] if tier == "thorough" else [[(1, 2), (4, 1)][seed % 2]]
    ops = ops or {"fit", "partial_fit", "add_arm", "remove_arm", "predict_expectations", "predict"}
    for d in (1, 2):
        for lam in lams:
            binds = []
            for i, reg in enumerate(regs):
                alpha = {"ridge": 0.0, "ucb": 1.25, "ts": 1e-9}[reg]
                binds.append(dict(reg=reg, alpha=alpha, labelmap=["int", "str", "float"][(i + seed) % 3],
                                  unit=["1", "1/4"][(i + d) % 2], container=["ndarray", "list", "frame"][(i + d + seed) % 3]))
            common = dict(module="Lin", bindings=binds, invariants=ecf.LIN_INVARIANTS, properties=ecf.LIN_PROPERTIES)
            if checks is not None:
                common["checks"] = checks
            grid = LIN_GRIDS[d]
            depth = 4 if tier == "thorough" and d == 1 else 3      # d = 2 at depth 4 is beyond TLC within the time allowed
            base = dict(grid, Lambda=lam, Ops=set(ops))
            base.update(over or {})
            jobs.append(dict(common, name="lin%s-d%d-l%s-bfs" % (tag, d, "_".join(map(str, lam))), mode="bfs", timeout=2400,
                             consts=ecf.lin_consts(**dict(base, MaxDepth=depth, MaxHist=3, MaxBatch=1))))
            n = 300 if tier == "thorough" else 80
            jobs.append(dict(common, name="lin%s-d%d-l%s-sim" % (tag, d, "_".join(map(str, lam))), mode="sim", sim_num=n,
                             seed=seed + d, consts=ecf.lin_consts(**dict(base, MaxDepth=8, MaxHist=8, MaxBatch=2))))
    # scale=True, single fit (the case the property covers): Fit then queries, contexts as float64 / int arrays
    for d in ((1, 2) if scaled else ()):
        lam = lams[d % len(lams)]
        binds = []
        for i, reg in enumerate(regs):
            alpha = {"ridge": 0.0, "ucb": 1.25, "ts": 1e-9}[reg]
            binds.append(dict(reg=reg, alpha=alpha, labelmap=["int", "str"][(i + seed) % 2], unit=["1", "1/4"][(i + d) % 2],
                              ctx_dtype=["float64", "int", "float"][(i + seed) % 3]))
        common = dict(module="Lin", bindings=binds, invariants=["Inv_C08_Keys"], properties=ecf.LIN_PROPERTIES)
        if checks is not None:
            common["checks"] = checks
        grid = dict(LIN_GRIDS[d])
        grid["Ctx"] = set(sorted(grid["Ctx"])[:3])
        base = dict(grid, Lambda=lam, Ops={"fit", "predict_expectations", "predict"}, Scaled=True, Labels={"a", "b"},
                    MaxBatch=3 if tier == "quick" else 4, MaxHist=4)
        if tier == "quick":
            jobs.append(dict(common, name="lin%s-scaled-d%d-sim" % (tag, d), mode="sim", sim_num=250, seed=seed + 7 * d,
                             consts=ecf.lin_consts(**dict(base, MaxDepth=3))))
        else:
            jobs.append(dict(common, name="lin%s-scaled-d%d-bfs" % (tag, d), mode="bfs",
                             consts=ecf.lin_consts(**dict(base, MaxDepth=3, MaxBatch=3))))
            jobs.append(dict(common, name="lin%s-scaled-d%d-sim" % (tag, d), mode="sim", sim_num=600, seed=seed + 7 * d,
                             consts=ecf.lin_consts(**dict(base, MaxDepth=3))))
    return jobs


def c02(report):
    report.nontrivial_rule = ("Lin.tla edges replayed on LinGreedy/LinUCB/LinTS; non-trivial = query edges whose expectations "
                              "were compared with the exact rational ridge solution and with numpy.linalg.solve")
    jobs = lin_jobs(report.tier, report.seed)
    # arm churn on bandits that have predicted before: remove an arm and add the same label again (it moves to the end of the
    # arm list), then ask for expectations - the representatives answer queries right after training and not in between
    for d in (1, 2):
        lam = [(1, 2), (4, 1)][(report.seed + d) % 2]
        grid = dict(LIN_GRIDS[d])
        grid["Ctx"] = set(sorted(grid["Ctx"])[-1:])
        binds = [dict(reg=reg, alpha={"ridge": 0.0, "ucb": 1.25}[reg], labelmap=["int", "str"][(i + d) % 2], unit="1")
                 for i, reg in enumerate(("ucb", "ridge"))]
        consts = ecf.lin_consts(**dict(grid, Lambda=lam, Labels={"a", "b", "c"}, InitArms=["a", "b", "c"], Rewards={1}, MaxBatch=1,
                                       MaxHist=1, MaxDepth=5 if report.tier == "quick" else 6,
                                       Ops={"fit", "remove_arm", "add_arm", "predict_expectations"}))
        consts["QuerySets"] = set(sorted(consts["QuerySets"], key=len)[:1])
        jobs.append(dict(module="Lin", bindings=binds, invariants=ecf.LIN_INVARIANTS, properties=ecf.LIN_PROPERTIES,
                         query_after={"fit", "partial_fit"}, name="lin-churn-d%d" % d, mode="bfs", consts=consts))
    ecf.run_jobs(report, jobs, by_clause("state.A", "state.Xty", "state.beta", "result.linear", "result.linalg",
                                         "result.manyrows", "shape.rows", "call.exception"))
    # beyond the exact model: many features, real-valued data, single-row online updates, nearly constant scaled columns
    from harness import linwide
    wide_findings, wide_counters = [], {}
    linwide.run(report.seed, report.tier, wide_findings, wide_counters)
    report.findings += wide_findings
    report.count("lin.wide_cases", wide_counters.get("wide_cases", 0))
    # scale=True over several training calls: LinScale.tla (running moments, one segment per training call) replayed edge by edge
    from harness import linscale
    scale_findings = []
    linscale.run(report, scale_findings)
    report.findings += scale_findings
    items = [("RidgeInitAinv", "Inv_C02_Unobserved"), ("XtyOverwritten", "Inv_C02_NormalEq"), ("FitKeepsA", "Prop_C07_FitIsFresh")]
    for dev, expect in (items if report.tier == "thorough" else items[: 1 + report.seed % 2]):
        ecf.lin_negative(report, dev, expect)
    _nontrivial_from_counts(report, "cf.queries")
    report.nontrivial = set(range(len(report.nontrivial) + report.coverage.get("linscale.queries", 0)))
    report.assumptions += ["contexts are small integer vectors and rewards integers times a dyadic unit: X'X and X'y are exact "
                           "in floating point; beta and expectations are compared with relative tolerance 1e-9 (LinTS with "
                           "alpha = 1e-9: 1e-6)", "scale=True with a single fit is decided through the rational identity "
                           "(x-mu)'(C + lambda diag(s2))^-1 c (Lin.tla); over several training calls LinScale.tla specifies the code's "
                           "running standardisation (each batch standardised with the moments of all rows of the arm up to and "
                           "including it): moments exactly, A / Xty / expectations evaluated from the exact segments with "
                           "floating-point square roots (relative tolerance 1e-9)"]


# ---------------------------------------------------------------------------
# parallel helpers (Par.tla, TracePar.tla)
PAR_INVS = ["Inv_C05_RowLocal", "Inv_C05_Partition", "Inv_C05_FitOrder"]


def c05(report):
    from harness import par, tlc, nb
    from harness.common import ROOT
    report.nontrivial_rule = ("(policy combination, batch, partition, chunk start order, backend) tuples enumerated by TLC and "
                              "executed chunk by chunk on the real _predict_contexts; plus real joblib runs validated by TracePar")
    thorough = report.tier == "thorough"
    # leg A: the design - every partition, schedule and backend; the partition arithmetic
    result = tlc.run("Par", dict(MaxRows=5 if thorough else 4, Backends={"seq", "threads", "procs"}, Arms={"a", "b", "c"},
                                 Dev=set()), invariants=PAR_INVS + ["EmitDone"], constraint=None, view="View", workers=1,
                     timeout=1200)
    if result.violated:
        raise Machinery("Par.tla: %s violated in the clean model" % result.violated)
    report.add_tlc("Par/schedules", result, PAR_INVS, note="all compositions x backends x interleavings")
    schedules = result.edges
    arith = tlc.run("Par", dict(MaxRows=1, Backends={"seq"}, Arms={"a"}, Dev=set()), invariants=["Inv_C05_ExactCover"],
                    constraint=None, view="View", workers=1, timeout=600)
    if arith.violated:
        raise Machinery("Par.tla: Inv_C05_ExactCover violated")
    report.add_tlc("Par/partition-arithmetic", arith, ["Inv_C05_ExactCover"], note="n <= 64, n_jobs in -66..66, cpu in {1,2,16}")
    devs = ["TreeLeafUsesMainRng", "ReseedAfterUse", "SeedsPerChunkTimesFirst", "ReduceInCompletionOrder", "FitTaskReadsShared"]
    for dev in (devs if thorough else [devs[report.seed % len(devs)]]):
        neg = tlc.run("Par", dict(MaxRows=4, Backends={"seq", "threads", "procs"}, Arms={"a", "b", "c"}, Dev={dev}),
                      invariants=PAR_INVS, constraint=None, view="View", workers=4, timeout=600)
        report.states += neg.states
        report.transitions += neg.generated
        report.negatives.append({"deviation": dev, "module": "Par", "tlc_reported": neg.violated, "ok": neg.violated is not None})
        if neg.violated is None:
            raise Machinery("Par deviation %s produced no counterexample" % dev)
    findings, counters = [], {}
    # leg A': the code's partition equals CodePartition (validated by TLC)
    calls = par.partition_table(findings, counters)
    # leg B: every schedule executed chunk by chunk
    combos = [("radius", "eg", dict(epsilon=0.4)), ("radius", "ts", {}), ("knearest", "softmax", dict(k=3)),
              ("lsh", "ts", {}), ("clusters", "ts", {}), ("clusters", "eg", dict(epsilon=0.4)), ("tree", "ucb1", {}),
              ("tree", "ts", {}), ("tree", "eg", dict(epsilon=0.4)), ("radius", "lin-ts", dict(radius=(3, 1))),
              ("knearest", "lin-ts", dict(k=4)), ("lsh", "lin-ts", dict(n_dims=1, n_tables=2)), ("clusters", "lin-ts", {}),
              ("radius", "lin-ucb", dict(radius=(3, 1))), ("lsh", "pop", {}), ("knearest", "random", {}),
              # deterministic policies: one policy copy serves all rows of a chunk, so each row must start from a full reset
              ("radius", "ucb1", dict(radius=(1, 1))), ("knearest", "ucb1", dict(k=1)), ("lsh", "ucb1", dict(n_dims=3)),
              ("radius", "softmax", dict(radius=(1, 1))), ("knearest", "pop", dict(k=2)),
              # metrics whose scale would be estimated from the rows handed to cdist together
              ("radius", "ucb1", dict(metric="seuclidean", radius=(2, 1))), ("knearest", "eg", dict(metric="mahalanobis", k=2))]
    if not thorough:
        keep = [c for i, c in enumerate(combos) if (i + report.seed) % 2 == 0 or c[1] in ("lin-ts", "ucb1") or c[0] == "tree"
                or c[2].get("metric") in ("seuclidean", "mahalanobis")]
        combos = keep
    cfgs = [nb.NbConfig(np_, lp=lp, **kw) for np_, lp, kw in combos]
    use = schedules if thorough else [s for s in schedules if s["m"] >= 2][:: 2]
    par.leg_b(cfgs, use, report.seed, findings, counters)
    par.fit_orders([c for c in cfgs if c.np == "tree"], report.seed, findings, counters)
    par.fit_orders_cf(report.seed, findings, counters)
    # leg C: real joblib runs with hooks on
    jobs = [(1, None), (2, "threading"), (3, "threading"), (4, None), (-1, "threading")]
    if thorough:
        jobs += [(2, "loky"), (5, "loky"), (64, "threading"), (-2, None), (2, "multiprocessing")]
    else:
        jobs += [[(2, "loky")], [(3, "multiprocessing")], [(64, "threading")]][report.seed % 3]
    ccfgs = [dict(np_=np_, lp=lp, **kw) for np_, lp, kw in combos if not (np_ == "tree" and lp in ("ts", "eg"))][: 10 if thorough else 5]
    ccfgs += [dict(np_=None, lp=lp) for lp in (["ucb1", "ts", "softmax", "lin-ucb", "lin-ts"] if thorough else ["ucb1", "lin-ts"])]
    ccfgs += [dict(np_="tree", lp="ts"), dict(np_="clusters", lp="lin-ts")][: 2 if thorough else 1]
    for c in ccfgs:
        if isinstance(c.get("radius"), tuple):
            c["radius"] = list(c["radius"])
    calls += par.leg_c(ccfgs, jobs, 3 if not thorough else 5, report.seed, findings, counters, ROOT)
    res, ok, fails = par.validate_calls(calls)
    report.add_tlc("TracePar/recorded-calls", res, note="%d recorded _parallel_predict / _partition_contexts calls" % len(calls))
    report.traces += len(calls)
    for tid, clause in fails.items():
        call = calls[tid - 1]
        findings.append({"clause": "trace." + clause, "detail": "TracePar rejects the recorded call %s" % json.dumps(call)[:600],
                         "op": "predict", "label": {"call": tid, "tags": []}, "path": [], "binding": call.get("cfg", {}),
                         "engine": "par"})
    missing = set(range(1, len(calls) + 1)) - ok - set(fails)
    if missing:
        raise Machinery("TracePar gave no verdict for calls %s" % sorted(missing)[:5])
    report.findings += findings
    for k, v in counters.items():
        report.count("par." + k, v)
    report.replayed += counters.get("schedules", 0)
    report.evaluations = counters.get("schedules", 0) + counters.get("row_alone", 0) + len(calls) + counters.get("joblib_runs", 0)
    report.nontrivial = set(range(counters.get("schedules", 0)))
    report.samples += [{"engine": "Par.tla schedule executed on _predict_contexts", "schedule": s} for s in use[5:8]]
    report.samples += [{"engine": "recorded joblib call validated by TracePar.tla", "call": c} for c in calls[-2:]]
    report.assumptions += ["process-based backends are compared through their results and through hook events written per "
                           "process; row-level interleavings inside a chunk cannot be forced from outside and are covered by "
                           "the chunk start orders TLC enumerates"]


# ---------------------------------------------------------------------------
# policy-agnostic life cycle (Life.tla) over every learning x neighbourhood combination
def combos(tier, seed, only=None):
    from harness import gen
    allc = [(lp, np_) for np_ in gen.NPS for lp in gen.LPS if gen.valid(lp, np_)]
    if only:
        allc = [c for c in allc if only(c)]
    if tier == "thorough" or len(allc) <= 9:
        return allc
    # a third of the combinations, rotated so that every neighbourhood policy meets different learning policies and every
    # learning policy meets several neighbourhood policies (a plain stride would pick the same three policies each time)
    third = [(lp, np_) for j, np_ in enumerate(gen.NPS) for i, lp in enumerate(gen.LPS)
             if (lp, np_) in allc and (i + j + seed) % 3 == 0]
    must = [("ts", "lsh"), ("lin-ts", "radius"), ("ucb1", "tree"), ("softmax", "clusters"), ("lin-ucb", None), ("pop", None),
            ("lin-ts", None), ("ts", None), ("ts", "tree")]
    return third + [c for c in must if c in allc and c not in third]


def life_jobs(tier, seed, ops, checks=None, rejects=False, depth=None, over=None, only=None, sims=True, tag="", extra=None):
    from harness import gen
    jobs = []
    for i, (lp, np_) in enumerate(combos(tier, seed, only)):
        bkw = dict(lp=lp, np_=np_, labelmap=["int", "str", "float"][(i + seed) % 3],
                   container=["ndarray", "list", "pandas", "int"][(i + i // 3 + seed) % 4],
                   n_jobs=[1, 2, 3][(i + seed) % 3] if np_ else 1, backend="threading" if np_ else None)
        if lp == "ts" and np_ != "tree" and (i + seed) % 2 == 0:
            bkw["bin_name"] = "thr"      # Thompson with an arm-dependent binarizer (under TreeBandit: known finding F9, decided by C14)
        bkw.update(extra or {})
        if np_ == "tree" and lp == "ts":
            bkw["n_jobs"] = 1        # leaf policies share the main generator between threads (known finding F7, decided by C05)
        b = gen.GenBinding(**bkw)
        o = dict(Ops=set(ops), MinFit=b.min_fit, MaxDepth=depth or (5 if tier == "thorough" else 4))
        if rejects:
            o["RejectKinds"] = b.reject_kinds()
        o.update(over or {})
        common = dict(module="Life", bindings=[bkw], invariants=ecf.LIFE_INVARIANTS, properties=ecf.LIFE_PROPERTIES)
        if checks is not None:
            common["checks"] = checks
        name = "life%s-%s-%s" % (tag, lp, np_ or "none")
        jobs.append(dict(common, name=name + "-bfs", mode="bfs", consts=ecf.life_consts(**o)))
        if sims:
            so = dict(o, MaxDepth=9, MaxHist=8)
            jobs.append(dict(common, name=name + "-sim", mode="sim", sim_num=60 if tier == "thorough" else 15, seed=seed + i,
                             consts=ecf.life_consts(**so)))
    return jobs


# ---------------------------------------------------------------------------
# Simulator (Sim.tla, TraceSim.tla)
def _sim_common(report, want_c15, want_c16):
    from harness import sim, tlc
    thorough = report.tier == "thorough"
    consts = dict(Ns={8, 10, 12, 16} if thorough else {8, 12}, TestSizes={(1, 4), (1, 2), (3, 8)},
                  Batches={0, 1, 2, 3, 4} if thorough else {0, 1, 3}, Orders={True, False}, Scalers={False, True})
    result = tlc.run("Sim", consts, invariants=["Inv_C15_EachRowOnce", "Inv_C15_LearnAfterPredict", "Inv_C15_ScaleFirst"], view=None,
                     constraint=None, workers=1, timeout=600)
    if result.violated:
        raise Machinery("Sim.tla: %s violated" % result.violated)
    report.add_tlc("Sim/protocol-scripts", result, ["Inv_C15_EachRowOnce", "Inv_C15_LearnAfterPredict", "Inv_C15_ScaleFirst"],
                   note="every (n, test_size, ordered, batch_size, scaler) with its public-API script")
    confs = result.edges
    findings, counters, records = [], {}, []
    lists = sim.LISTS
    k = 0
    contextual_lists = [l for l in lists if any(sim.base_name(n) not in sim.CONTEXT_FREE for n in l)]
    import random as _random
    for index, conf in enumerate(confs):
        # seeded draws, not index arithmetic: strides resonate with the order of the configurations and would pair each
        # bandit list with the same batch size / split every time
        rnd = _random.Random(report.seed * 7919 + index)
        picks = lists if thorough else rnd.sample(lists, 4)
        if conf.get("scaled"):
            # the scaler only matters for contextual bandits; one list per configuration in the quick tier
            picks = contextual_lists if thorough else rnd.sample(contextual_lists, 1)
        for names in picks:
            for is_quick in ((False, True) if (thorough or not conf.get("scaled")) else (rnd.random() < 0.5,)):
                if len(names) and min(conf["n"] - conf["T"], conf["n"]) < 4 and any(n.startswith("knn") for n in names):
                    continue
                sim.run_config(conf, names, rnd.randrange(1, 10 ** 6), is_quick, findings, counters, records)
                k += 1
    # test sizes that are not dyadic (0.8, 0.3, ...): the split size is not specified, the bookkeeping laws still are
    for j, (n, ts) in enumerate([(10, (4, 5)), (15, (4, 5)), (10, (9, 10)), (20, (11, 20)), (10, (3, 10)), (12, (7, 10))]):
        for ordered in (True, False):
            conf = {"n": n, "ts": list(ts), "ordered": ordered, "batch": [0, 2][j % 2]}
            small = [["eg", "ucb1"], ["radius_city", "radius_cheb"], ["ts", "radius_ts", "lsh_ts"], ["linucb", "lints"]]
            sim.run_config(conf, small[(j + report.seed) % len(small)], report.seed + 500 + j, bool(j % 2), findings, counters, records)
    # data large enough for the Simulator to split a batch into memory-sized chunks (12000 x 12000 distances > 1 GB):
    # the chunking is an implementation detail, the script of public calls is the one of Sim.tla
    if want_c15:
        big = tlc.run("Sim", dict(Ns={24000}, TestSizes={(1, 2)}, Batches={12000, 7000}, Orders={True}, Scalers={False}),
                      invariants=["Inv_C15_EachRowOnce"], view=None, constraint=None, workers=1, timeout=600)
        report.add_tlc("Sim/chunked-batches", big, ["Inv_C15_EachRowOnce"], note="n = 24000: batches larger than the chunk size")
        for j, conf in enumerate(big.edges):
            conf = dict(conf, no_record=True)
            sim.run_config(conf, ["eg", "ucb1", "linucb"], report.seed + 900 + j, True, findings, counters, records)
    res, ok, fails = sim.validate(records)
    report.add_tlc("TraceSim/recorded-runs", res, note="%d Simulator runs, public attributes recomputed exactly" % len(records))
    missing = set(range(1, len(records) + 1)) - ok - set(fails)
    if missing:
        raise Machinery("TraceSim gave no verdict for runs %s" % sorted(missing)[:5])
    for tid, clause in fails.items():
        rec = records[tid - 1]
        findings.append({"clause": "trace." + clause, "detail": "TraceSim rejects the reported attributes of a Simulator run "
                         "(clause %s): %s" % (clause, json.dumps(rec)[:700]), "op": "simulate", "label": {"run": tid},
                         "path": [], "binding": {"bandits": [b["name"] for b in rec["bandits"]]}, "engine": "sim"})
    c15 = ("predictions", "expectations", "run.exception", "replay.exception")
    for f in findings:
        is15 = f["clause"].startswith(c15)
        if (is15 and want_c15) or (not is15 and want_c16):
            report.findings.append(f)
    report.traces += len(records)
    report.replayed += counters.get("bandit_runs", 0)
    for key, v in counters.items():
        report.count("sim." + key, v)
    for key, v in sim.NB_CHECKED.items():
        report.count("sim.nb_stats_recomputed." + key, v)
    report.evaluations = counters.get("bandit_runs", 0) + len(records)
    report.nontrivial = set(range(counters.get("bandit_runs", 0) if want_c15 else len(records)))
    report.samples += [{"engine": "Sim.tla script replayed through the public API", "config": c} for c in confs[3:5]]
    if records:
        report.samples.append({"engine": "Simulator run validated by TraceSim.tla", "run": records[0]})


def c15(report):
    report.nontrivial_rule = ("(configuration, bandit) pairs: Simulator.run() compared with the TLC-emitted public-API script "
                              "executed on a deep copy of the original bandit")
    _sim_common(report, True, False)
    report.assumptions += ["test sizes are dyadic so that the split arithmetic is exact in floating point",
                           "expectations are compared for deterministic learning policies only (as the property states); for the "
                           "internally replaced Radius/KNearest/LSHNearest bandits they are read from a deep copy"]


def c16(report):
    report.nontrivial_rule = "Simulator runs whose reported attributes were recomputed exactly by TraceSim.tla"
    _sim_common(report, False, True)
    report.assumptions += ["std is not compared (irrational); rewards are small integers so that every reported statistic is an "
                           "exact rational"]


# ---------------------------------------------------------------------------
# several bandits in one interpreter, several interpreters (Multi.tla)
def c04(report):
    from harness import multi, tlc
    from harness.common import ROOT
    report.nontrivial_rule = ("(policy combination, label type, interleaving) triples executed in-process and compared with the "
                              "solo run; plus fresh interpreters under different PYTHONHASHSEED")
    consts = dict(ScriptA=list(multi.SCRIPT_A), ScriptB=list(multi.SCRIPT_B), Dev=set())
    result = tlc.run("Multi", consts, invariants=["Inv_C04_Isolation", "EmitDone"], view=None, constraint=None, workers=1,
                     timeout=900)
    if result.violated:
        raise Machinery("Multi.tla: %s violated in the clean model" % result.violated)
    report.add_tlc("Multi/interleavings", result, ["Inv_C04_Isolation"], note="all interleavings of the observed script with the interferer")
    neg = tlc.run("Multi", dict(consts, Dev={"ReadsShared"}), invariants=["Inv_C04_Isolation"], view=None, constraint=None,
                  workers=4, timeout=300)
    report.negatives.append({"deviation": "ReadsShared", "module": "Multi", "tlc_reported": neg.violated, "ok": neg.violated is not None})
    if neg.violated is None:
        raise Machinery("Multi deviation ReadsShared produced no counterexample")
    scheds = [e["sched"] for e in result.edges]
    rnd = __import__("random").Random(report.seed)
    rnd.shuffle(scheds)
    # TLC enumerates and checks ALL interleavings; a seeded sample of them is executed on real objects for every policy
    # combination (all of them would be 3003 x 90 combinations x 2 label types x 3 interferer kinds)
    scheds = scheds[:60] if report.tier != "thorough" else scheds[:400]
    findings, counters = [], {}
    multi.in_process(scheds, report.tier, report.seed, findings, counters)
    multi.across_processes(report.tier, report.seed, findings, counters, ROOT)
    report.findings += findings
    for k, v in counters.items():
        report.count("multi." + k, v)
    report.replayed += counters.get("schedules", 0)
    report.evaluations = counters.get("schedules", 0) + counters.get("process_runs", 0)
    report.nontrivial = set(range(counters.get("schedules", 0)))
    report.samples += [{"engine": "Multi.tla interleaving executed on real objects", "schedule": "".join(s),
                        "scriptA": multi.SCRIPT_A, "scriptB": multi.SCRIPT_B} for s in scheds[:3]]
    report.assumptions += ["BLAS/OpenMP threads pinned to 1 (the property assumes it)",
                           "the interferer also draws from and re-seeds numpy's and Python's global generators"]


# ---------------------------------------------------------------------------
# C18 containers / caller objects, C20 relabelling, row order, reward laws (cross-binding comparison on Life.tla graphs)
def cross_jobs(tier, seed, variants, relation, ops, only=None, dims=2, caller_check=False, tag="", depth=None, sims=True):
    from harness import gen
    jobs = []
    for i, (lp, np_) in enumerate(combos(tier, seed, only)):
        base = dict(lp=lp, np_=np_, dims=dims, n_jobs=1, backend=None)
        binds = [dict(base, **v) for v in variants(lp, np_, i)]
        if len(binds) < 2:
            continue
        b = gen.GenBinding(**binds[0])
        o = dict(Ops=set(ops), MinFit=b.min_fit, MaxDepth=depth or (5 if tier == "thorough" else 4), QueryRows={1, 3})
        common = dict(module="Life", bindings=binds, invariants=ecf.LIFE_INVARIANTS, properties=ecf.LIFE_PROPERTIES,
                      checks=("state",), cross=relation, caller_check=caller_check)
        name = "cross%s-%s-%s" % (tag, lp, np_ or "none")
        jobs.append(dict(common, name=name + "-bfs", mode="bfs", consts=ecf.life_consts(**o)))
        if sims:
            jobs.append(dict(common, name=name + "-sim", mode="sim", sim_num=40 if tier == "thorough" else 12, seed=seed + i,
                             consts=ecf.life_consts(**dict(o, MaxDepth=9, MaxHist=8))))
    return jobs


def c18(report):
    from harness import tlc
    report.nontrivial_rule = ("query edges of Life.tla graphs replayed under every container type and compared edge by edge with "
                              "the ndarray replay; byte snapshots of every caller object around every call")
    def variants(lp, np_, i):
        extra = dict(bin_name="thr") if lp == "ts" and np_ != "tree" and i % 2 == 0 else {}     # the binarizer reads the caller's arrays
        return [dict(container=c, **extra) for c in ("ndarray", "list", "pandas", "fortran", "view", "int", "f32")]
    ops = FULL_OPS | {"warm_start"}
    jobs = cross_jobs(report.tier, report.seed, variants, "exact", ops, caller_check=True, tag="-c18")
    # single-feature data: a pandas Series as contexts (column orientation)
    def variants1(lp, np_, i):
        return [dict(container=c) for c in ("ndarray", "series1", "list")]
    jobs += cross_jobs(report.tier, report.seed + 1, variants1, "exact", ops, only=lambda c: c[1] is not None or c[0].startswith("lin-"),
                       dims=1, caller_check=True, tag="-c18d1", sims=False)
    # linear policies that standardise the contexts (scale=True): the query matrix is shared by the per-arm models
    def scaled(lp, np_, i):
        return [dict(container=c, lin_scale=True) for c in ("ndarray", "list", "pandas", "int")]
    jobs += cross_jobs(report.tier, report.seed + 2, scaled, "close", {"fit", "partial_fit", "predict", "predict_expectations"},
                       only=lambda c: c[0].startswith("lin-") and c[1] in (None, "radius", "clusters"), caller_check=True,
                       tag="-c18scaled", sims=report.tier == "thorough")
    ecf.run_jobs(report, jobs, by_clause("cross.", "caller.", "call.exception", "state."))
    # Series orientation: every valid case of Orient.tla on real bandits
    result = tlc.run("Orient", dict(MaxLen=3), invariants=["Inv_C18_Unambiguous"], view=None, constraint=None, workers=1, timeout=300)
    if result.violated:
        raise Machinery("Orient.tla: %s violated" % result.violated)
    report.add_tlc("Orient/series-cases", result, ["Inv_C18_Unambiguous"])
    _series_cases(report, result.edges)
    _caller_objects(report)
    report.nontrivial = set(range(report.coverage.get("cross.outputs_compared", 0)))
    report.evaluations = report.replayed + report.coverage.get("c18.series_cases", 0)
    report.assumptions += ["a pandas Series as QUERY contexts of a context-free bandit is excluded: the orientation rule needs stored "
                           "features and the library raises AttributeError there (recorded in DESIGN.md as an observation)"]


def _series_cases(report, cases):
    """A Series and the 2-D array Orient.tla says it stands for must give identical results."""
    import numpy as np
    import pandas as pd
    import warnings
    from harness.snap import same
    from mabwiser.mab import MAB, LearningPolicy as LP, NeighborhoodPolicy as NP
    warnings.filterwarnings("ignore")
    makers = [lambda: MAB([1, 2], LP.LinUCB(1.0, 1.0)), lambda: MAB([1, 2], LP.EpsilonGreedy(0), NP.Radius(10.0)),
              lambda: MAB([1, 2], LP.UCB1(1.0), NP.KNearest(1)), lambda: MAB([1, 2], LP.EpsilonGreedy(0), NP.TreeBandit()),
              lambda: MAB([1, 2], LP.LinTS(0.5, 1.0)), lambda: MAB([1, 2], LP.UCB1(1.0), NP.LSHNearest(2, 2))]
    n = 0
    for case in cases:
        d, ln = case["d"], case["len"]
        for make in makers:
            n += 1
            where = {"case": case}
            try:
                if case["isFit"]:
                    dec = [1, 2, 1][: case["n"]]
                    rew = [1.0, 0.0, 2.0][: case["n"]]
                    vals = [float(i + 1) for i in range(ln)]
                    a, b = make(), make()
                    a.fit(dec, rew, pd.Series(vals))
                    b.fit(dec, rew, np.asarray(vals).reshape(case["shape"]))
                    q = [[float(j) for j in range(d)]]
                    x, y = a.predict_expectations(q), b.predict_expectations(q)
                else:
                    a, b = make(), make()
                    train = [[float((i * (j + 2)) % 3) for j in range(d)] for i in range(4)]
                    for m in (a, b):
                        m.fit([1, 2, 1, 2], [1.0, 0.0, 2.0, 1.0], train)
                    vals = [float(i % 3) for i in range(ln)]
                    x = a.predict_expectations(pd.Series(vals))
                    y = b.predict_expectations(np.asarray(vals).reshape(case["shape"]))
                if not same(x, y):
                    report.findings.append({"clause": "series.orientation", "op": "series", "engine": "series", "path": [],
                                            "detail": "case %s: the Series gives %r, the %s array gives %r" % (case, x, case["shape"], y),
                                            "label": where, "binding": {}})
            except Exception as error:  # noqa
                report.findings.append({"clause": "series.exception", "op": "series", "engine": "series", "path": [],
                                        "detail": "case %s raised %s: %s" % (case, type(error).__name__, error), "label": where,
                                        "binding": {}})
    report.count("c18.series_cases", n)


def _caller_objects(report):
    """The arms list, policy parameter objects and the arm-feature dictionary belong to the caller."""
    import pickle
    from mabwiser.mab import MAB, LearningPolicy as LP, NeighborhoodPolicy as NP
    cases = 0
    for np_factory in (lambda p: None, lambda p: NP.TreeBandit(p["tree"]), lambda p: NP.Radius(2.0, "euclidean", p["probs"]),
                       lambda p: NP.LSHNearest(2, 2, p["probs"]), lambda p: NP.Clusters(2), lambda p: NP.KNearest(1)):
        for lp in (LP.EpsilonGreedy(0.1), LP.UCB1(1), LP.ThompsonSampling()):
            arms = [1, 2, 3]
            params = {"tree": {"max_depth": 2}, "probs": [0.5, 0.25, 0.25]}
            if isinstance(lp, LP.ThompsonSampling().__class__) and False:
                continue
            npol = np_factory(params)
            if isinstance(npol, NP.TreeBandit) is False and npol is not None and False:
                continue
            snap = pickle.dumps((arms, params))
            mab = MAB(arms, lp, npol, seed=3)
            ctx = [[0.0, 1.0], [1.0, 0.0], [1.0, 1.0], [2.0, 1.0]]
            args = ([1, 2, 3, 1], [1, 0, 1, 0]) + ((ctx,) if npol is not None else ())
            mab.fit(*args)
            mab.predict(ctx[:2]) if npol is not None else mab.predict()
            cases += 1
            if pickle.dumps((arms, params)) != snap:
                report.findings.append({"clause": "caller.modified", "op": "construct", "engine": "caller", "path": [], "label": {},
                                        "detail": "constructing / training %s with %s changed the caller's arms list or parameter "
                                                  "objects: %r %r" % (lp, npol, arms, params), "binding": {}})
            # arm changes on the bandit are the bandit's own business too
            try:
                mab.add_arm(7)
                mab.partial_fit(*(([7, 2], [1, 0]) + ((ctx[:2],) if npol is not None else ())))
                mab.remove_arm(1)
            except Exception as error:  # noqa
                report.findings.append({"clause": "call.exception", "op": "add_arm", "engine": "caller", "path": [], "label": {},
                                        "detail": "add_arm / partial_fit / remove_arm raised %s: %s (%s, %s)"
                                                  % (type(error).__name__, error, lp, npol), "binding": {}})
            if pickle.dumps((arms, params)) != snap:
                report.findings.append({"clause": "caller.modified", "op": "add_arm", "engine": "caller", "path": [], "label": {},
                                        "detail": "add_arm / partial_fit / remove_arm on a bandit built with %s and %s changed the "
                                                  "caller's arms list or parameter objects: %r %r" % (lp, npol, arms, params),
                                        "binding": {}})
            arms.append(99)
            if 99 in mab.arms or 99 in mab._imp.arms:
                report.findings.append({"clause": "caller.arms_aliased", "op": "construct", "engine": "caller", "path": [], "label": {},
                                        "detail": "appending to the list the bandit was constructed from changed the bandit's arms "
                                                  "(%s, %s)" % (lp, npol), "binding": {}})
    report.count("c18.caller_cases", cases)


def c20(report):
    report.nontrivial_rule = ("query edges of Life.tla graphs replayed on the original and on the transformed problem (relabelled "
                              "arms, permuted rows, shifted / scaled rewards) from the same seed and compared edge by edge")
    ops = FULL_OPS | {"warm_start"}
    def relabel(lp, np_, i):
        return [dict(labelmap=m) for m in ("int", "str", "float", "int0")]
    jobs = cross_jobs(report.tier, report.seed, relabel, "exact", ops, tag="-relabel")
    def perm(lp, np_, i):
        extra = dict(bin_name="thr") if lp == "ts" else {}       # arm-dependent binarizer: rows and arms must stay aligned
        return [dict(perm_seed=None, **extra), dict(perm_seed=1 + i, **extra), dict(perm_seed=50 + i, **extra)]
    row_ok = lambda c: c[1] in (None, "radius", "lsh") and c[0] != "random"
    jobs += cross_jobs(report.tier, report.seed + 1, perm, "close", {"fit", "partial_fit", "predict_expectations"}, only=row_ok,
                       tag="-roworder")
    # the same, with the data written as plain Python lists that mix ints and floats (whole numbers as ints)
    def perm_mixed(lp, np_, i):
        return [dict(perm_seed=None, container="mixed", runit=0.5), dict(perm_seed=3 + i, container="mixed", runit=0.5),
                dict(perm_seed=70 + i, container="mixed", runit=0.5)]
    jobs += cross_jobs(report.tier, report.seed + 2, perm_mixed, "close", {"fit", "partial_fit", "predict_expectations"},
                       only=lambda c: row_ok(c) and c[0] != "ts", tag="-rowmixed", sims=report.tier == "thorough")
    def shift(lp, np_, i):
        return [dict(), dict(shift=2), dict(shift=-1)]
    jobs += cross_jobs(report.tier, report.seed, shift, "law", {"fit", "partial_fit", "predict_expectations"},
                       only=lambda c: c[1] is None and c[0] in ("eg", "ucb1", "softmax"), tag="-shift", sims=False)
    def scale(lp, np_, i):
        return [dict(), dict(scale=3), dict(scale=0.5)]
    jobs += cross_jobs(report.tier, report.seed, scale, "law", {"fit", "partial_fit", "predict_expectations"},
                       only=lambda c: c[1] is None and c[0] == "lin-greedy", tag="-scale", sims=False)
    ecf.defer(jobs, by_clause("cross.", "call.exception"))
    # the statistics themselves: TLC checks rename / row-order / shift-scale invariance on the Def layer of Mab.tla
    inv = ["Inv_C20_RowOrder", "Inv_C20_Rename", "Inv_C20_ShiftScale", "Inv_C01_Acc"]
    mjobs = cf_jobs(["eg", "ucb1", "softmax", "ts"], report.tier, report.seed, ops={"fit", "partial_fit", "predict_expectations"},
                    over=dict(QueryRows={0}), checks=("state",), invariants=inv, properties=[], sims=False, tag="-c20")
    ecf.defer(mjobs, by_clause("state.acc", "state.expv"))
    ecf.flush(report)
    report.nontrivial = set(range(report.coverage.get("cross.outputs_compared", 0)))
    report.evaluations = report.replayed
    report.assumptions += ["row-order invariance is checked for context-free, linear, Radius and LSHNearest (as the property states); "
                           "reward laws for histories in which the compared arm has been observed"]


def suite_leg(report, keep):
    """The repository's own tests, run with hooks on, validated against Life.tla by TraceLife.tla."""
    from harness import suite
    from harness.common import ROOT
    files = None if report.tier == "thorough" else suite.QUICK_FILES[report.seed % 2::2] + ["tests/test_invalid.py"]
    suite.run(report, ROOT, files, keep)


def _nontrivial_from_counts(report, key=None):
    # distinct non-trivial cases are counted by the replay engine per job (distinct spec states / edges)
    n = report.coverage.get(key, 0) if key else report.coverage.get("cf.states", 0)
    report.nontrivial = set(range(n))
    report.evaluations = report.replayed


CHECKS = {"C01": c01, "C02": c02, "C03": c03, "C04": c04, "C05": c05, "C11": c11, "C12": c12, "C06": c06, "C07": c07, "C08": c08, "C09": c09, "C10": c10, "C13": c13, "C14": c14, "C15": c15, "C16": c16, "C18": c18, "C20": c20,
          "C17": c17, "C19": c19}


def replay(prop, path):
    """Re-executes a replay file on the current tree: exit 1 if the recorded clause fails again, 0 if it no longer does."""
    with open(path) as handle:
        finding = json.load(handle)
    from harness import cf
    engine = finding.get("engine", "cf")
    b = finding.get("binding", {})
    if engine in ("cf", "lin", "life") and finding.get("trace"):
        if engine == "cf":
            binding = cf.CFBinding(b["lp"], labelmap=b["labels"], unit=b["unit"], dtype=b["dtype"], seed=b["seed"],
                                   alpha=b["alpha"], tau=b["tau"], epsilon=b["epsilon"], n_jobs=b["n_jobs"],
                                   backend=b["backend"], container=b["container"])
        elif engine == "lin":
            from harness import lin
            from fractions import Fraction
            lam = Fraction(b["l2_lambda"])
            binding = lin.LinBinding(reg=b["lp"][4:], alpha=b["alpha"], lam=(lam.numerator, lam.denominator), labelmap=b["labels"],
                                     unit=b["unit"], seed=b["seed"], n_jobs=b["n_jobs"], backend=b["backend"],
                                     container=b["container"], scale=b.get("scale", False), ctx_dtype=b.get("ctx_dtype", "float"))
        else:
            from harness import gen
            binding = gen.GenBinding(lp=b["lp"], np_=b["np"], labelmap=b["labels"], seed=b["seed"], n_jobs=b["n_jobs"],
                                     backend=b["backend"], data_seed=b["data_seed"], dims=b["dims"], bin_name=b["bin"],
                                     epsilon=b["epsilon"], container=b["container"], perm_seed=b.get("perm_seed"),
                                     shift=b.get("shift", 0), scale=b.get("scale", 1), preconv=b.get("preconv"),
                                     addarm_bin=b.get("addarm_bin"), binary_rewards=b.get("binary_rewards", False),
                                     lin_scale=b.get("lin_scale", False), runit=b.get("runit", 1))
        rep = cf.Replay(binding, feat=finding.get("consts", {}).get("FeatSets") or finding.get("consts", {}).get("Feat", {}),
                        checks=cf.ALL_CHECKS + ("locality",))
        if finding.get("path_mode"):
            rep.run_paths(finding["trace"])
        else:
            rep.run(finding["trace"])
        for f in rep.findings:
            print("  %s %s: %s" % (f["clause"], f["op"], f["detail"][:500]))
        if any(f["clause"] == finding["clause"] for f in rep.findings):
            print("VIOLATION property=%s replay=%s" % (prop, path))
            return 1
        print("replay of %s: clause %s no longer fails" % (path, finding["clause"]))
        return 0
    if engine == "nb" and finding.get("path"):
        from harness import nb
        kw = {k: v for k, v in b.items()}
        cfg = nb.NbConfig(kw.pop("np"), lp=kw["lp"], metric=kw["metric"], radius=tuple(kw["radius"]), k=kw["k"], n_tables=kw["n_tables"],
                          n_dims=kw["n_dimensions"], n_clusters=kw["n_clusters"], minibatch=kw["minibatch"],
                          tree_params=kw["tree_parameters"], labelmap=kw["labels"], unit=kw["unit"], dims=kw["dims"], seed=kw["seed"],
                          n_jobs=kw["n_jobs"], backend=kw["backend"], init_bin=kw["bin"], alpha=kw["alpha"], tau=kw["tau"],
                          epsilon=kw["epsilon"], no_nhood=kw["no_nhood"])
        rec = nb.Recorder(cfg)
        for call in finding["path"]:
            if call["op"] in ("fit", "partial_fit"):
                rec.train(call["op"], [(a, r, tuple(x)) for a, r, x in call["batch"]])
            elif call["op"] == "add_arm":
                rec.add_arm(call["arm"], call.get("bin", "keep"))
            elif call["op"] == "remove_arm":
                rec.remove_arm(call["arm"])
            elif call["op"] == "query":
                rec.query(tuple(call["q"]), real=call.get("real"))
            elif call["op"] == "query_batch":
                rec.query_batch([tuple(x) for x in call["rows"]])
        result, done, fails, oracles = nb.validate(cfg, [rec])
        clauses = [f["clause"] for f in rec.findings]
        if 1 in fails:
            clauses.append("trace." + fails[1][1])
        clauses += [c for c, _, _ in nb.compare_queries(cfg, rec, 1, oracles)]
        print("  clauses failing now: %s" % sorted(set(clauses)))
        if finding["clause"] in clauses:
            print("VIOLATION property=%s replay=%s" % (prop, path))
            return 1
        print("replay of %s: clause %s no longer fails" % (path, finding["clause"]))
        return 0
    # schedules, interleavings, simulator runs, cross-binding and test-suite findings are reproduced by re-running the
    # check itself with the seed it was found with (all random choices derive from VERIF_SEED)
    print("replay file %s (engine %s): re-running the %s check" % (path, engine, prop))
    from harness import common
    report = common.Report(prop, os.environ.get("VERIF_TIER") or "quick", int(os.environ.get("VERIF_SEED", "1") or 1))
    CHECKS[prop](report)
    return common.finish(report)
