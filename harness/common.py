"""Reports, evidence files, known findings, replay files - shared by all checks."""
import hashlib
import json
import os
import re
import time

ROOT = os.path.dirname(os.path.dirname(os.path.abspath(__file__)))
EVIDENCE_DIR = os.environ.get("VERIF_EVIDENCE_DIR") or os.path.join(ROOT, "evidence")
REPLAY_DIR = os.path.join(ROOT, "out", "replay")
KNOWN = os.path.join(ROOT, "known_findings.jsonl")


class Machinery(Exception):
    """The check itself failed (tool missing, spec error, harness bug): exit 2, never a verdict."""


class Report:
    """What one run of a check covered and found."""

    def __init__(self, prop, tier, seed):
        self.prop = prop
        self.tier = tier
        self.seed = seed
        self.start = time.time()
        self.states = 0
        self.transitions = 0
        self.replayed = 0            # spec edges executed on the real library
        self.traces = 0              # recorded executions validated by TLC
        self.evaluations = 0
        self.nontrivial = set()      # distinct non-trivial cases (hashable keys)
        self.nontrivial_rule = ""
        self.samples = []
        self.findings = []           # dicts with clause, detail, path, binding, ...
        self.assumptions = []
        self.tlc_runs = []           # per run: module, config summary, states, transitions, invariants, wall
        self.negatives = []          # deviation runs: name, expected, violated
        self.coverage = {}           # free-form counters
        self.notes = []

    def add_tlc(self, name, result, invariants=(), properties=(), note=""):
        self.states += result.states
        self.transitions += result.generated
        self.tlc_runs.append({"model": name, "states": result.states, "transitions": result.generated,
                              "edges_emitted": len(result.edges), "invariants": list(invariants),
                              "properties": list(properties), "wall_s": round(result.wall, 1), "note": note})

    def count(self, key, n=1):
        self.coverage[key] = self.coverage.get(key, 0) + n


def load_known():
    entries = []
    if os.path.exists(KNOWN):
        with open(KNOWN) as handle:
            for line in handle:
                line = line.strip()
                if line and not line.startswith("#"):
                    entries.append(json.loads(line))
    return entries


def matches(entry, finding):
    """A known finding matches by property, clause prefix, and every listed field of the failing case."""
    if entry.get("status") != "open":
        return False
    m = entry.get("match", {})
    if "clause" in m and not finding.get("clause", "").startswith(m["clause"]):
        return False
    if "op" in m and finding.get("op") not in (m["op"] if isinstance(m["op"], list) else [m["op"]]):
        return False
    for key, want in m.get("binding", {}).items():
        got = finding.get("binding", {}).get(key)
        if isinstance(want, list):
            if got not in want:
                return False
        elif got != want:
            return False
    if "detail" in m and not re.search(m["detail"], finding.get("detail", "")):
        return False
    if "where" in m and not re.search(m["where"], json.dumps(finding.get("path", ""))
                                      + json.dumps(finding.get("label", ""))):
        return False
    return True


def write_replay(prop, finding):
    os.makedirs(REPLAY_DIR, exist_ok=True)
    body = json.dumps(finding, sort_keys=True, default=str)
    name = "%s-%s.json" % (prop, hashlib.sha1(body.encode()).hexdigest()[:12])
    path = os.path.join(REPLAY_DIR, name)
    with open(path, "w") as handle:
        json.dump(finding, handle, indent=1, sort_keys=True, default=str)
    return path


def finish(report, level="model_checking"):
    """Prints verdict lines, writes the evidence file, returns the exit code."""
    known = [e for e in load_known() if e.get("property") == report.prop]
    violations, known_hits = [], {}
    for finding in report.findings:
        hit = next((e for e in known if matches(e, finding)), None)
        if hit is not None:
            known_hits.setdefault(hit["id"], [hit, 0])[1] += 1
        else:
            violations.append(finding)
    for ident, (entry, n) in sorted(known_hits.items()):
        print("KNOWN-FINDING: property=%s %s (%s; %d occurrence(s) this run)" % (report.prop, entry["what"], ident, n))
    if violations:
        sigs = {}
        for f in violations:
            b = f.get("binding", {})
            key = (f.get("clause"), f.get("op"), b.get("np"), b.get("lp"), tuple(f.get("label", {}).get("tags", []))
                   if isinstance(f.get("label"), dict) else ())
            sigs[key] = sigs.get(key, 0) + 1
        for key, n in sorted(sigs.items(), key=str):
            print("  violation kind x%d: %s" % (n, key))
    seen = set()
    for finding in violations[:10]:
        path = write_replay(report.prop, finding)
        key = (finding.get("clause"), finding.get("op"))
        if key in seen:
            continue
        seen.add(key)
        print("VIOLATION property=%s replay=%s" % (report.prop, path))
        print("  clause=%s op=%s :: %s" % (finding.get("clause"), finding.get("op"), str(finding.get("detail"))[:600]))
    wall = time.time() - report.start
    coverage = {
        "states": report.states,
        "transitions": report.transitions,
        "traces_validated_against_impl": report.replayed + report.traces,
        "spec_edges_replayed_on_impl": report.replayed,
        "recorded_traces_validated_by_tlc": report.traces,
        "evaluations": max(report.evaluations, report.replayed + report.traces),
        "distinct_nontrivial": len(report.nontrivial),
        "rule": report.nontrivial_rule,
        "samples": report.samples[:6] or [{"note": "no sample recorded"}],
        "tlc_runs": report.tlc_runs,
        "negative_configs": report.negatives,
        "counters": report.coverage,
        "known_findings_hit": {k: v[1] for k, v in known_hits.items()},
        "notes": report.notes,
        "exhaustive": False,
    }
    evidence = {
        "property_id": report.prop,
        "tier": report.tier,
        "seed": int(report.seed),
        "level": level,
        "coverage": coverage,
        "assumptions": report.assumptions,
        "wall_s": round(wall, 2),
        "violations": len(violations),
    }
    os.makedirs(EVIDENCE_DIR, exist_ok=True)
    with open(os.path.join(EVIDENCE_DIR, report.prop + ".json"), "w") as handle:
        json.dump(evidence, handle, indent=1, default=str)
    print("%s tier=%s seed=%s: %d TLC states, %d transitions, %d spec edges replayed on the library, "
          "%d recorded traces validated, %d violation(s), %d known finding(s), %.1fs"
          % (report.prop, report.tier, report.seed, report.states, report.transitions, report.replayed, report.traces,
             len(violations), len(known_hits), wall))
    return 1 if violations else 0
