"""Leg C on the repository's own test-suite: run (part of) it with the guarded hooks on, turn every outermost public
call on a MAB object into a trace event and validate the traces against Life.tla with spec/TraceLife.tla."""
import glob
import json
import os
import shutil
import subprocess
import sys
import tempfile

from harness import tlc
from harness.tlc import Raw

QUICK_FILES = ["tests/test_mab.py", "tests/test_invalid.py", "tests/test_radius.py", "tests/test_lshnearest.py",
               "tests/test_clusters.py", "tests/test_treebandit.py", "tests/test_thompson.py", "tests/test_ucb.py"]


def record(root, files=None, timeout=1500):
    """Runs pytest in /repo (or MABWISER_REPO) with hooks on; returns the list of traces."""
    directory = tempfile.mkdtemp(prefix="suitehooks_")
    repo = os.environ.get("MABWISER_REPO") or "/repo"
    try:
        env = dict(os.environ)
        env.update({"MABWISER_VERIF": "1", "MABWISER_VERIF_SINK": "harness.suitesink:emit", "MABWISER_VERIF_DIR": directory,
                    "PYTHONPATH": root + os.pathsep + repo + os.pathsep + env.get("PYTHONPATH", ""),
                    "OMP_NUM_THREADS": "1", "OPENBLAS_NUM_THREADS": "1", "MKL_NUM_THREADS": "1"})
        cmd = [sys.executable, "-m", "pytest", "-q", "-p", "no:cacheprovider", "-x", "--deselect",
               "tests/test_ridge.py::RidgeRegressionTest::test_predict_ridge_scaler"] + list(files or [])
        proc = subprocess.run(cmd, cwd=repo, env=env, stdout=subprocess.PIPE, stderr=subprocess.STDOUT, timeout=timeout)
        summary = proc.stdout.decode().strip().splitlines()[-1] if proc.stdout else ""
        traces = {}
        for path in sorted(glob.glob(os.path.join(directory, "suite_*.jsonl"))):
            pid = os.path.basename(path)[6:-6]
            with open(path) as handle:
                for line in handle:
                    rec = json.loads(line)
                    key = (pid, rec["trace"])
                    if key not in traces:
                        traces[key] = {"arms": rec["pre"]["arms"], "fitted": rec["pre"]["fitted"],
                                       "nrows": max(rec["pre"]["nrows"], 0), "events": []}
                    traces[key]["events"].append(_event(rec))
        out = [t for k, t in traces.items() if t["events"]]
        return out, summary, proc.returncode
    finally:
        shutil.rmtree(directory, ignore_errors=True)


def _event(rec):
    e = {"op": rec["op"], "out": rec["out"], "post": rec["post"]}
    for key in ("k", "o", "arm", "m"):
        if key in rec:
            e[key] = rec[key]
    e.setdefault("k", 0)
    e.setdefault("o", 0)
    e.setdefault("arm", "")
    e.setdefault("m", 0)
    e["res"] = rec.get("res", {"n": 0, "list": False, "arms": [], "keys": []})
    return e


def validate(traces, timeout=1500):
    labels = set()
    for t in traces:
        labels.update(t["arms"])
        for e in t["events"]:
            labels.update(e["post"]["arms"])
            if e["arm"]:
                labels.add(e["arm"])
    handle, path = tempfile.mkstemp(prefix="suitetrace_", suffix=".json")
    try:
        with os.fdopen(handle, "w") as out:
            json.dump(traces, out)
        consts = dict(Labels=set(labels) or {"x"}, InitArms=[], NRows=1000000000, Offsets=Raw("Nat"), WideOffsets=set(), MaxChunk=1000000000,
                      MaxHist=1000000000, MaxDepth=1000000000, MinFit=0, MinArms=0,
                      Ops={"fit", "partial_fit", "add_arm", "remove_arm", "predict", "predict_expectations", "warm_start", "reject"},
                      RejectKinds={"any"}, QueryRows=Raw("Int"), Quantiles={"q"}, EpochOnAdd=False, Dev=set())
        result = tlc.run("TraceLife", consts, init="TInit", next_="TNext", view="TView", constraint=None, invariants=["Done"],
                         workers=1, timeout=timeout, env={"TRACE_FILE": path})
    finally:
        os.unlink(path)
    done, fails = set(), {}
    for line in result.raw.splitlines():
        line = line.strip()
        if line.startswith('<<"DONE"'):
            done.add(int(line.split(",")[1].strip(" >")))
        elif line.startswith('<<"FAIL"'):
            parts = [p.strip(' <>"') for p in line.split(",")]
            fails.setdefault(int(parts[1]), (int(parts[2]), parts[3]))
    return result, done, fails


def run(report, root, files, keep):
    traces, summary, rc = record(root, files)
    if not traces:
        from harness.common import Machinery
        raise Machinery("the instrumented test run produced no traces (%s)" % summary)
    result, done, fails = validate(traces)
    report.add_tlc("TraceLife/test-suite", result, note="%d traces, %d events from the repository's own tests (%s)"
                   % (len(traces), sum(len(t["events"]) for t in traces), summary))
    report.traces += len(traces)
    report.count("suite.traces", len(traces))
    report.count("suite.events", sum(len(t["events"]) for t in traces))
    report.count("suite.accepted", len(done - set(fails)))
    for tid, trace in enumerate(traces, 1):
        if tid in done and tid not in fails:
            continue
        pos, clause = fails.get(tid, (None, "action.disabled"))
        event = trace["events"][pos - 1] if pos and pos <= len(trace["events"]) else None
        finding = {"clause": "suite." + clause, "op": event["op"] if event else "?", "engine": "suite", "path": [],
                   "detail": "a public call made by the repository's test-suite is not a step of Life.tla: event %s of a trace "
                             "starting from arms %s: clause %s; event %s" % (pos, trace["arms"], clause, json.dumps(event)[:500]),
                   "label": {"event": pos, "out": event["out"] if event else "?"}, "binding": {}}
        if keep(finding):
            report.findings.append(finding)
    if len(report.samples) < 8 and traces:
        report.samples.append({"engine": "test-suite trace validated by TraceLife.tla", "trace": traces[min(3, len(traces) - 1)]})
