"""C15 / C16: the Simulator against spec/Sim.tla.

leg B (C15): every configuration TLC enumerates comes with the script of public API calls the Simulator stands
for; the real Simulator.run() is compared with that script executed on deep copies of the original bandits.
leg C (C16): the public attributes after run() are recorded and validated by TraceSim.tla, which recomputes
the split laws, the per-arm statistics and the default evaluator exactly.
"""
import copy
import json
import logging
import os
import random
import tempfile
import warnings
from fractions import Fraction

import numpy as np

from harness import tlc
from harness.cf import LABEL_MAPS
from harness.snap import same

LM = LABEL_MAPS["int"]
INV = {v: k for k, v in LM.items()}
ARMS = ["a", "b", "c"]

BANDITS = {
    "eg": lambda LP, NP, s: (LP.EpsilonGreedy(0.0), None),
    "eg25": lambda LP, NP, s: (LP.EpsilonGreedy(0.25), None),
    "ucb1": lambda LP, NP, s: (LP.UCB1(1.0), None),
    "ts": lambda LP, NP, s: (LP.ThompsonSampling(), None),
    "softmax": lambda LP, NP, s: (LP.Softmax(1), None),
    "linucb": lambda LP, NP, s: (LP.LinUCB(1.0, 0.5), None),
    "lints": lambda LP, NP, s: (LP.LinTS(0.5, 1.0), None),
    "lingreedy": lambda LP, NP, s: (LP.LinGreedy(0.2, 1.0), None),
    "radius_city": lambda LP, NP, s: (LP.EpsilonGreedy(0.0), NP.Radius(2.0, "cityblock")),
    "radius_cheb": lambda LP, NP, s: (LP.UCB1(1.0), NP.Radius(1.0, "chebyshev")),
    "radius_ts": lambda LP, NP, s: (LP.ThompsonSampling(), NP.Radius(2.0, "euclidean")),
    "knn_city": lambda LP, NP, s: (LP.EpsilonGreedy(0.0), NP.KNearest(2, "cityblock")),
    "knn_cheb": lambda LP, NP, s: (LP.UCB1(1.0), NP.KNearest(3, "chebyshev")),
    "knn_lin": lambda LP, NP, s: (LP.LinUCB(1.0, 1.0), NP.KNearest(4, "sqeuclidean")),
    "lsh": lambda LP, NP, s: (LP.EpsilonGreedy(0.0), NP.LSHNearest(2, 2)),
    "lsh_ts": lambda LP, NP, s: (LP.ThompsonSampling(), NP.LSHNearest(1, 2)),
    "clusters": lambda LP, NP, s: (LP.UCB1(1.0), NP.Clusters(2)),
    "clusters_ts": lambda LP, NP, s: (LP.ThompsonSampling(), NP.Clusters(2)),
    "tree": lambda LP, NP, s: (LP.UCB1(1.0), NP.TreeBandit()),
}
DETERMINISTIC = {"eg", "ucb1", "linucb", "radius_city", "radius_cheb", "knn_city", "knn_cheb", "knn_lin", "lsh", "clusters", "tree"}
REPLACED = {"radius_city", "radius_cheb", "radius_ts", "knn_city", "knn_cheb", "knn_lin", "lsh", "lsh_ts"}
CONTEXT_FREE = {"eg", "eg25", "ucb1", "ts", "softmax"}

LISTS = [["knn_city_j2", "knn_cheb", "radius_city_j2"], ["lsh_j2", "knn_lin_j2", "clusters"], ["eg", "ucb1"], ["radius_city_j2", "radius_cheb_j2"], ["knn_city", "knn_cheb", "radius_city"], ["linucb", "lints"],
         ["lsh", "clusters"], ["ts", "radius_ts", "lsh_ts"], ["tree", "eg25", "lingreedy"], ["knn_lin", "radius_cheb", "softmax"],
         ["clusters_ts", "knn_cheb", "radius_city"], ["radius_cheb", "radius_city", "knn_city", "knn_cheb"]]


NB_CHECKED = {}     # bandit name -> runs whose neighbourhood statistics are recomputed by TraceSim (integer contexts, not quick)


def base_name(name):
    return name[:-3] if name.endswith("_j2") else name


def make(name, seed, n_jobs=1):
    from mabwiser.mab import MAB, LearningPolicy as LP, NeighborhoodPolicy as NP
    if name.endswith("_j2"):
        n_jobs = 2
    lp, np_ = BANDITS[base_name(name)](LP, NP, seed)
    return MAB([LM[a] for a in ARMS], lp, np_, seed=seed, n_jobs=n_jobs)


def dataset(n, rnd, binary, decimal=False):
    labels = [ARMS[i % 3] if i < 3 else rnd.choice(ARMS) for i in range(n)]
    rnd.shuffle(labels)
    rewards = [rnd.choice([0, 1]) if binary else rnd.choice([0, 1, 2, 3]) for _ in range(n)]
    if decimal:      # a 0.1 grid: distances that differ only in the last bits (the comparison is implementation vs implementation)
        contexts = [[rnd.randrange(12) / 10.0, rnd.randrange(12) / 10.0] for _ in range(n)]
    else:
        contexts = [[float(rnd.randrange(3)), float(rnd.randrange(3))] for _ in range(n)]
    return labels, rewards, contexts


def quiet():
    logging.disable(logging.CRITICAL)
    root = logging.getLogger()
    for handler in list(root.handlers):
        root.removeHandler(handler)


def run_config(conf, names, seed, is_quick, findings, counters, records):
    """One Simulator run and its public-API replay."""
    from mabwiser.simulator import Simulator
    from sklearn.model_selection import train_test_split
    warnings.filterwarnings("ignore")
    rnd = random.Random(seed * 7919 + conf["n"] * 31 + conf["batch"])
    binary = any(base_name(n) in ("ts", "radius_ts", "lsh_ts", "clusters_ts") for n in names)
    labels, rewards, contexts = dataset(conf["n"], rnd, binary, decimal=bool((seed >> 1) % 2))
    d = np.asarray([LM[a] for a in labels])
    r = np.asarray([float(x) for x in rewards])
    c = np.asarray(contexts)
    contextual_any = any(base_name(n) not in CONTEXT_FREE for n in names)
    bandit_seed = 100 + seed
    bandits = [(name, make(name, bandit_seed + i)) for i, name in enumerate(names)]
    if seed % 3 == 1:
        # bandits that were USED before they are given to the Simulator (trained and queried on a warm-up sample): the
        # simulation continues from the state the bandit is in, generator position included
        used = []
        for i, (name, mab) in enumerate(bandits):
            try:
                if base_name(name) in CONTEXT_FREE:
                    mab.fit(d[:5], r[:5])
                    mab.predict()
                else:
                    mab.fit(d[:5], r[:5], c[:5])
                    mab.predict(c[:3])
                counters["used_bandits"] = counters.get("used_bandits", 0) + 1
            except Exception:  # noqa: the warm-up sample does not suit this bandit (too few rows for k): keep it fresh
                mab = make(name, bandit_seed + i)
            used.append((name, mab))
        bandits = used
    refs = {name: copy.deepcopy(mab) for name, mab in bandits}
    ts = Fraction(*conf["ts"])
    sim_seed = 7 + seed
    quiet()
    scaled = bool(conf.get("scaled")) and contextual_any
    scaler = None
    if scaled:
        from sklearn.preprocessing import StandardScaler
        scaler = StandardScaler()
    sim = Simulator(bandits, d, r, c if contextual_any else None, test_size=float(ts), is_ordered=conf["ordered"],
                    batch_size=conf["batch"], seed=sim_seed, is_quick=is_quick, scaler=scaler)
    quiet()
    where = {"conf": conf, "bandits": names, "seed": seed, "is_quick": is_quick}
    try:
        sim.run()
    except Exception as error:  # noqa
        findings.append(_f("run.exception", "Simulator.run() raised %s: %s" % (type(error).__name__, error), where))
        return
    quiet()
    counters["runs"] = counters.get("runs", 0) + 1
    test_idx = [int(i) for i in sim.test_indices]
    n = conf["n"]
    if conf["ordered"]:
        train_idx = [i for i in range(n) if i not in set(test_idx)]
    else:
        train_idx, split_test = train_test_split(list(range(n)), test_size=float(ts), random_state=sim_seed)
        if [int(i) for i in split_test] != test_idx:
            findings.append(_f("split.sklearn", "test_indices %s differ from sklearn's split %s" % (test_idx, split_test), where))
            return
    T = conf.get("T", len(test_idx))
    # ---- C15: the script on the public API -----------------------------------------------------------------
    for name in (names if "script" in conf else []):
        ref = refs[name]
        bname = base_name(name)
        cf = bname in CONTEXT_FREE
        preds, exps = [], []
        cs = np.asarray(c, dtype=float).copy()
        try:
            for step in conf["script"]:
                if step["op"] == "scale_fit_on_train":
                    if scaled:
                        from sklearn.preprocessing import StandardScaler
                        own = StandardScaler()
                        cs[train_idx] = own.fit_transform(np.asarray(c, dtype=float)[train_idx])
                        cs[test_idx] = own.transform(np.asarray(c, dtype=float)[test_idx])
                    continue
                if step["op"] == "fit_train":
                    if cf:
                        ref.fit(d[train_idx], r[train_idx])
                    else:
                        ref.fit(d[train_idx], r[train_idx], cs[train_idx])
                    continue
                rows = [test_idx[i - 1] for i in step["rows"]]
                if step["op"] == "predict":
                    if bname in DETERMINISTIC and bname in REPLACED:
                        e = copy.deepcopy(ref).predict_expectations(cs[rows])      # stream-neutral reading
                        exps.extend(e if isinstance(e, list) else [e])
                    if cf:
                        preds.extend(ref.predict() for _ in rows)
                    else:
                        p = ref.predict(cs[rows])
                        preds.extend(p if isinstance(p, list) else [p])
                elif step["op"] == "expectations":
                    if cf or bname in REPLACED:
                        continue
                    e = ref.predict_expectations(cs[rows])
                    exps.extend(e if isinstance(e, list) else [e])
                elif step["op"] == "partial_fit":
                    if cf:
                        ref.partial_fit(d[rows], r[rows])
                    else:
                        ref.partial_fit(d[rows], r[rows], cs[rows])
            if conf["batch"] == 0 and not cf and bname not in REPLACED:
                e = ref.predict_expectations(cs[test_idx])
                exps = e if isinstance(e, list) else [e]
        except Exception as error:  # noqa
            findings.append(_f("replay.exception", "public-API replay of %s raised %s: %s" % (name, type(error).__name__, error), where))
            continue
        got = [p.item() if hasattr(p, "item") else p for p in sim.bandit_to_predictions[name]]
        want = [p.item() if hasattr(p, "item") else p for p in preds]
        counters["bandit_runs"] = counters.get("bandit_runs", 0) + 1
        if got != want:
            findings.append(_f("predictions", "bandit %s: Simulator reports predictions %s, the public API gives %s"
                               % (name, got, want), dict(where, bandit=name)))
        if bname in DETERMINISTIC and not cf and exps:
            rep = sim.bandit_to_expectations[name]
            if len(rep) != len(exps) or not all(_same_exp(a, b) for a, b in zip(rep, exps)):
                findings.append(_f("expectations", "bandit %s: Simulator reports expectations %s, the public API gives %s"
                                   % (name, _short(rep), _short(exps)), dict(where, bandit=name)))
    # ---- C16: record the public attributes for TraceSim -----------------------------------------------------
    if conf.get("no_record"):
        return
    try:
        records.append(record(sim, names, labels, rewards, conf, test_idx, is_quick, contexts))
    except ValueError as error:
        findings.append(_f("record.inexact", "a reported statistic is not an exact rational of the data: %s" % error, where))


def _same_exp(a, b):
    if not isinstance(a, dict) or not isinstance(b, dict) or list(a.keys()) != list(b.keys()):
        return False
    return all((a[k] != a[k] and b[k] != b[k]) or abs(float(a[k]) - float(b[k])) <= 1e-9 * max(1.0, abs(float(b[k]))) for k in a)


def _f(clause, detail, where):
    return {"clause": clause, "detail": detail, "op": "simulate", "label": where, "path": [], "binding": {"bandits": where.get("bandits")},
            "engine": "sim"}


def _short(v):
    text = repr(v)
    return text if len(text) < 300 else text[:300] + "..."


def rat(x):
    f = Fraction(float(x)).limit_denominator(10 ** 6)
    if abs(float(f) - float(x)) > 1e-9 * max(1.0, abs(float(x))):
        raise ValueError("%r" % (x,))
    return [f.numerator, f.denominator]


def stats_rec(st):
    if not st or st.get("count", 0) == 0:
        return {"count": 0}
    return {"count": int(st["count"]), "sum": rat(st["sum"]), "min": rat(st["min"]), "max": rat(st["max"]), "mean": rat(st["mean"])}


def record(sim, names, labels, rewards, conf, test_idx, is_quick, contexts=None):
    def arm_stats(table):
        return {INV[a]: stats_rec(table[a]) for a in table}
    bandits = []
    for name in names:
        evals = {}
        for st, table in (("min", sim.bandit_to_arm_to_stats_min), ("mean", sim.bandit_to_arm_to_stats_avg),
                          ("max", sim.bandit_to_arm_to_stats_max)):
            t = table[name]
            if conf["batch"] > 0:
                t = t["total"]
            evals[st] = {INV[a]: stats_rec(t[a]) for a in t}
        batches = []
        if conf["batch"] > 0:
            n_batches = -(-len(test_idx) // conf["batch"])
            for i in range(n_batches):
                per = {}
                for st, table in (("min", sim.bandit_to_arm_to_stats_min), ("mean", sim.bandit_to_arm_to_stats_avg),
                                  ("max", sim.bandit_to_arm_to_stats_max)):
                    t = table[name].get(i)
                    if t is None:
                        per = None
                        break
                    per[st] = {INV[a]: stats_rec(t[a]) for a in t}
                if per is not None:
                    batches.append(per)
        nb = []
        if base_name(name) in REPLACED and not is_quick:
            for row in sim.bandit_to_arm_to_stats_neighborhoods[name]:
                entry = {}
                for a in ARMS:
                    st = row.get(LM[a]) if row else None
                    entry[a] = [1, rat(st["min"]), rat(st["mean"]), rat(st["max"])] if st else [0]
                nb.append(entry)
        metric, radius = "", 0
        whole = all(float(v) == int(v) for row in contexts for v in row) if contexts is not None else False
        if nb and whole and not conf.get("scaled") and base_name(name) in ("radius_city", "radius_cheb"):
            metric, radius = {"radius_city": ("cityblock", 2), "radius_cheb": ("chebyshev", 1)}[base_name(name)]
        if metric:
            NB_CHECKED[name] = NB_CHECKED.get(name, 0) + 1
        bandits.append({"name": name, "metric": metric, "radius": radius, "predictions": [INV[p.item() if hasattr(p, "item") else p] for p in sim.bandit_to_predictions[name]],
                        "evals": evals, "nb": nb, "batches": batches})
    xs = [[int(v) if float(v) == int(v) else 0 for v in row] for row in contexts] if contexts is not None else [[0]] * len(labels)
    return {"arms": list(ARMS), "data": [{"a": a, "r": int(x), "x": x_} for a, x, x_ in zip(labels, rewards, xs)], "ts": list(conf["ts"]),
            "exact": "script" in conf,
            "ordered": bool(conf["ordered"]), "batch": conf["batch"], "test_indices": test_idx,
            "stats": {"total": arm_stats(sim.arm_to_stats_total), "train": arm_stats(sim.arm_to_stats_train),
                      "test": arm_stats(sim.arm_to_stats_test)}, "bandits": bandits}


def validate(records, timeout=900):
    handle, path = tempfile.mkstemp(prefix="simtrace_", suffix=".json")
    try:
        with os.fdopen(handle, "w") as out:
            json.dump(records, out)
        result = tlc.run("TraceSim", dict(Ns={4}, TestSizes={(1, 2)}, Batches={0}, Orders={True}, Scalers={False}), init="TInit", next_="TNext",
                         view=None, constraint=None, workers=1, timeout=timeout, env={"TRACE_FILE": path})
    finally:
        os.unlink(path)
    ok, fails = set(), {}
    for line in result.raw.splitlines():
        line = line.strip()
        if line.startswith('<<"OK"'):
            ok.add(int(line.split(",")[1].strip(" >")))
        elif line.startswith('<<"FAIL"'):
            parts = [p.strip(' <>"') for p in line.split(",")]
            fails.setdefault(int(parts[1]), parts[2])
    return result, ok, fails
