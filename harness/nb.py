"""Leg C for the neighbourhood policies: drive real bandits, record traces, let TLC (TraceNbhd.tla) validate them.

A scenario is a seeded history fit ; (partial_fit | query | add_arm | remove_arm)* on a real MAB with a
neighbourhood policy, over small integer context grids so that distances are exact.  After every training
call the geometry the real object assigns to the rows (LSH signatures from table_to_plane, k-means cells,
tree leaves) and the projection of the object are logged; TLC replays the specification actions with the
logged arguments, checks the logged projection and all invariants, and prints for every query the set of
results the documentation allows (exact terms).  The harness then compares what the real object returned
with that set.  Relational checks (predict vs expectations, read-only queries, key order) ride along.
"""
import copy
import json
import os
import random
import tempfile
from fractions import Fraction

import numpy as np

from harness import binarizers, terms, tlc
from harness.cf import LABEL_MAPS, CFBinding, first_argmax, rows_of
from harness.snap import snapshot, diff, same

INT32_MAX = np.iinfo(np.int32).max


class NbConfig:
    def __init__(self, np_, lp="eg", metric="cityblock", radius=(2, 1), k=2, n_tables=2, n_dims=2, n_clusters=2,
                 minibatch=False, tree_params=None, labelmap="int", unit=1, dims=2, grid=3, seed=11, n_jobs=1,
                 backend=None, init_bin="none", alpha=1.25, tau=2, epsilon=0.0, no_nhood=None, arms=("a", "b"),
                 extra_labels=("c",), ctx_unit=1, int_first=False):
        self.np = np_
        # contexts are grid points times ctx_unit; the specification keeps the integer grid and scales the radius.
        # int_first: the first fit gets whole-number contexts as an INTEGER array, later rows are fractional floats
        self.ctx_unit = Fraction(ctx_unit)
        self.int_first = int_first
        self.lp = lp
        self.metric = metric
        self.radius = radius
        self.k = k
        self.n_tables = n_tables
        self.n_dims = n_dims
        self.n_clusters = n_clusters
        self.minibatch = minibatch
        self.tree_params = tree_params or {}
        self.labelmap = labelmap
        self.unit = Fraction(unit)
        self.dims = dims
        self.grid = grid
        self.seed = seed
        self.n_jobs = n_jobs
        self.backend = backend
        self.init_bin = init_bin
        self.alpha = alpha
        self.tau = tau
        self.epsilon = epsilon
        self.no_nhood = no_nhood
        self.arms = list(arms)
        self.extra = list(extra_labels)
        self.cf = CFBinding(lp, labelmap=labelmap, unit=unit, seed=seed, alpha=alpha, tau=tau, epsilon=epsilon,
                            n_jobs=n_jobs, backend=backend)

    def group(self):
        """Everything that is a TLC constant: traces with equal groups are validated in one TLC run."""
        return (self.np, self.lp, self.metric, self.spec_radius(), self.k, self.n_tables, 2 ** self.n_dims)

    def cx(self, x):
        """Grid point -> the coordinates passed to the library."""
        u = float(self.ctx_unit)
        return [float(v) * u for v in x]

    def spec_radius(self):
        """The radius in grid units: distances scale with ctx_unit (squared for sqeuclidean)."""
        r = Fraction(*self.radius) / (self.ctx_unit ** 2 if self.metric == "sqeuclidean" else self.ctx_unit)
        return (r.numerator, r.denominator)

    def describe(self):
        return {"np": self.np, "lp": self.lp, "metric": self.metric, "radius": list(self.radius), "k": self.k,
                "n_tables": self.n_tables, "n_dimensions": self.n_dims, "n_clusters": self.n_clusters,
                "minibatch": self.minibatch, "tree_parameters": self.tree_params, "labels": self.labelmap,
                "unit": str(self.unit), "dims": self.dims, "seed": self.seed, "n_jobs": self.n_jobs,
                "backend": self.backend, "bin": self.init_bin, "alpha": self.alpha, "tau": self.tau,
                "epsilon": self.epsilon, "no_nhood": self.no_nhood, "ctx_unit": str(self.ctx_unit),
                "int_first": self.int_first}

    def neighborhood(self):
        from mabwiser.mab import NeighborhoodPolicy as NP
        if self.np == "radius":
            r = Fraction(*self.radius)
            return NP.Radius(float(r), self.metric, self.no_nhood)
        if self.np == "knearest":
            return NP.KNearest(self.k, self.metric)
        if self.np == "lsh":
            return NP.LSHNearest(self.n_dims, self.n_tables, self.no_nhood)
        if self.np == "clusters":
            return NP.Clusters(self.n_clusters, self.minibatch)
        if self.np == "tree":
            return NP.TreeBandit(dict(self.tree_params))
        raise ValueError(self.np)

    def policy(self):
        if self.lp.startswith("lin-"):
            from mabwiser.mab import LearningPolicy as LP
            return {"lin-ucb": LP.LinUCB(1.25, 0.5), "lin-ts": LP.LinTS(0.5, 2.0), "lin-greedy": LP.LinGreedy(0.3, 1.0),
                    "lin-ridge": LP.LinGreedy(0.0, 0.5)}[self.lp]
        return self.cf.policy(self.init_bin)

    def new(self, arms=None):
        from mabwiser.mab import MAB
        arms = self.arms if arms is None else arms
        return MAB([self.cf.lm[a] for a in arms], self.policy(), self.neighborhood(), seed=self.seed,
                   n_jobs=self.n_jobs, backend=self.backend)


def signature(x, plane):
    """The documented hash: sum_i 2^i [x . p_i > 0]."""
    proj = np.dot(np.asarray(x, dtype=float), plane)
    return int(sum((1 << i) for i in range(plane.shape[1]) if proj[i] > 0))


class Recorder:
    """Drives one real bandit and records the trace TLC validates."""

    def __init__(self, cfg):
        self.cfg = cfg
        self.mab = cfg.new()
        self.arms = list(cfg.arms)
        self.bin = cfg.init_bin
        self.rows = []            # all rows since the last fit: (label, reward_units, x)
        self.events = []
        self.queries = []         # (event index, q, real result, twin info)
        self.findings = []
        self.calls = []           # concrete call log for replay files
        self.pending_readd = set()  # clusters: labels re-added while rows of them are stored, not yet re-trained

    # -- geometry ---------------------------------------------------------
    def geo_rows(self, labels, xs):
        cfg, imp = self.cfg, self.mab._imp
        if cfg.np == "lsh":
            return [[signature(x, imp.table_to_plane[k]) for k in range(cfg.n_tables)] for x in xs]
        if cfg.np == "clusters":
            return None          # cells are read for all rows at once
        if cfg.np == "tree":
            out = []
            for label, x in zip(labels, xs):
                arm = cfg.cf.lm[label]
                tree = imp.arm_to_tree.get(arm)
                if tree is not None and hasattr(tree, "tree_"):
                    out.append(int(tree.apply(np.asarray([cfg.cx(x)], dtype=float))[0]))
                else:
                    out.append(0)
            return out
        return [0 for _ in xs]

    def geo_query(self, x, real=False):
        cfg, imp = self.cfg, self.mab._imp
        if cfg.np == "lsh":
            return [signature(x, imp.table_to_plane[k]) for k in range(cfg.n_tables)]
        if cfg.np == "clusters":
            return int(imp.kmeans.predict(np.asarray([x if real else cfg.cx(x)], dtype=float))[0]) + 1
        if cfg.np == "tree":
            out = {}
            for label in self.arms:
                tree = imp.arm_to_tree.get(cfg.cf.lm[label])
                if tree is not None and hasattr(tree, "tree_") and imp.arm_to_leaf_to_rewards[cfg.cf.lm[label]]:
                    out[label] = int(tree.apply(np.asarray([x if real else cfg.cx(x)], dtype=float))[0])
                else:
                    out[label] = 0
            return out
        return 0

    def post(self):
        cfg, imp = self.cfg, self.mab._imp
        post = {"n": len(self.rows), "arms": [cfg.cf.spec_label(a) for a in self.mab.arms]}
        if cfg.np in ("radius", "knearest", "lsh", "clusters") and getattr(imp, "decisions", None) is not None:
            post["n"] = int(len(imp.decisions))
            if not (len(imp.decisions) == len(imp.rewards) == len(imp.contexts)):
                post["n"] = -1
        if post["n"] >= 0 and cfg.np in ("radius", "knearest", "lsh", "clusters") and getattr(imp, "decisions", None) is not None \
                and post["n"] == len(self.rows):
            # the stored observations themselves: arm, converted reward (units), context of every row (grid units)
            inv = float(1 / cfg.ctx_unit)
            post["stored"] = [[cfg.cf.spec_label(a.item() if hasattr(a, "item") else a), self.units(r), [int(v) if float(v) == int(v) else [int(round(v * 1000)), 1000] for v in (float(w) * inv for w in x)]]
                              for a, r, x in zip(imp.decisions, imp.rewards, imp.contexts)]
        if cfg.np == "lsh":
            post["tables"] = [[[int(i) + 1 for i in imp.table_to_hash_to_index[k].get(h, [])]
                               for h in range(2 ** cfg.n_dims)] for k in range(cfg.n_tables)]
        if cfg.np == "tree":
            leaves, built = {}, {}
            for label in self.arms:
                arm = cfg.cf.lm[label]
                entries = []
                for leaf, rewards in sorted(imp.arm_to_leaf_to_rewards[arm].items()):
                    if len(rewards):
                        entries.append([int(leaf), [self.units(r) for r in rewards]])
                leaves[label] = entries
                built[label] = bool(imp.arm_to_leaf_to_rewards[arm])
            post["leaves"] = leaves
            post["built"] = built
        return post

    def units(self, value):
        f = Fraction(float(value)) / self.cfg.unit
        return int(f) if f.denominator == 1 else [f.numerator, f.denominator]

    # -- calls ------------------------------------------------------------------
    def train(self, op, batch):
        """batch: list of (label, reward_units, x)."""
        cfg = self.cfg
        decisions = np.asarray([cfg.cf.lm[a] for a, _, _ in batch])
        rewards = np.asarray([cfg.cf.reward(r) for _, r, _ in batch])
        contexts = np.asarray([cfg.cx(x) for _, _, x in batch], dtype=float)
        if cfg.int_first and op == "fit" and np.all(contexts == np.floor(contexts)):
            contexts = contexts.astype(int)
        self.calls.append({"op": op, "batch": [[a, r, list(x)] for a, r, x in batch]})
        try:
            getattr(self.mab, op)(decisions, rewards, contexts)
        except Exception as error:  # noqa
            self.finding("call.exception", "%s raised %s: %s" % (op, type(error).__name__, error),
                         {"event": len(self.events) + 1, "op": op, "tags": []})
            self.calls.pop()
            return
        self.pending_readd = set()
        if op == "fit" or not self.events:
            self.rows = list(batch)
        else:
            self.rows = self.rows + list(batch)
        labels = [a for a, _, _ in batch]
        xs = [x for _, _, x in batch]
        geos = self.geo_rows(labels, xs)
        allg = []
        if cfg.np == "clusters":
            cells = [int(c) + 1 for c in self.mab._imp.kmeans.labels_]
            allg = cells
            geos = cells[len(cells) - len(batch):]
        event = {"op": op, "rows": [{"a": a, "r": r, "x": list(x), "g": g} for (a, r, x), g in zip(batch, geos)],
                 "allg": allg, "post": self.post()}
        self.events.append(event)

    def add_arm(self, label, nb="keep"):
        self.calls.append({"op": "add_arm", "arm": label, "bin": nb})
        arm = self.cfg.cf.lm[label]
        if nb == "keep":
            self.mab.add_arm(arm)
        else:
            self.mab.add_arm(arm, binarizers.BY_NAME[nb])
            self.bin = nb
        self.arms.append(label)
        if self.cfg.np == "clusters" and any(a == label for a, _, _ in self.rows):
            self.pending_readd.add(label)
        self.events.append({"op": "add_arm", "arm": label, "bin": nb, "post": self.post()})

    def remove_arm(self, label):
        self.calls.append({"op": "remove_arm", "arm": label})
        self.mab.remove_arm(self.cfg.cf.lm[label])
        self.arms.remove(label)
        self.pending_readd.discard(label)
        self.events.append({"op": "remove_arm", "arm": label, "post": self.post()})

    def query(self, x, real=None):
        """real: float coordinates actually passed (cluster centres); the event then carries a placeholder context."""
        cfg = self.cfg
        self.calls.append({"op": "query", "q": list(x), "real": None if real is None else [float(v) for v in real]})
        before = snapshot(self.mab, rng=False, skip=("arm_to_expectation",) if cfg.lp == "ts" else ())
        twin = copy.deepcopy(self.mab)
        twin2 = copy.deepcopy(self.mab)
        gen = copy.deepcopy(self.mab._rng)
        seed = int(gen.randint(INT32_MAX, size=1)[0])
        qg = self.geo_query(x) if real is None else self.geo_query(real, real=True)
        ctx = [cfg.cx(x) if real is None else list(map(float, real))]
        try:
            result = self.mab.predict_expectations(ctx)
        except Exception as error:  # noqa
            self.finding("call.exception", "predict_expectations(%s) raised %s: %s" % (ctx, type(error).__name__, error),
                         {"event": len(self.events) + 1, "q": list(x), "tags": []})
            return
        after = snapshot(self.mab, rng=False, skip=("arm_to_expectation",) if cfg.lp == "ts" else ())
        where = {"event": len(self.events) + 1, "q": list(x)}
        if after != before:
            self.readonly_verdict(twin2, before, after, where)
        arms = list(self.mab.arms)
        if not isinstance(result, dict) or list(result.keys()) != arms:
            self.finding("shape.keys", "expectation keys %r, arms %r" % (list(result.keys()) if isinstance(result, dict)
                                                                          else result, arms), where)
        else:
            try:
                arm = twin.predict(ctx)
            except Exception as error:  # noqa
                stale = cfg.no_nhood is not None and len(cfg.no_nhood) != len(arms)
                where["tags"] = ["no_nhood_prob_not_extended_by_add_arm"] if stale else []
                self.finding("predict.exception", "predict raised %s: %s (arms %r, no_nhood_prob_of_arm %r)"
                             % (type(error).__name__, error, arms, cfg.no_nhood), where)
                arm = None
            if arm is None:
                pass
            elif arm not in arms:
                self.finding("shape.member", "predict returned %r, not in %r" % (arm, arms), where)
            elif not all(v != v for v in result.values()):
                want = first_argmax(arms, result)
                tree_eps = cfg.np == "tree" and cfg.lp == "eg" and cfg.epsilon > 0
                if arm != want and not tree_eps:
                    self.finding("argmax.first", "predict returned %r, first maximiser of the expectations %r from the "
                                 "same stream position is %r" % (arm, result, want), where)
            elif cfg.no_nhood is not None:
                p = dict(zip(self.cfg.arms, cfg.no_nhood))
                label = cfg.cf.spec_label(arm)
                if p.get(label, 0) == 0:
                    if list(self.arms) != list(self.cfg.arms):
                        where["tags"] = ["no_nhood_prob_not_maintained_after_arm_change"]
                    self.finding("nonhood.zero", "empty neighbourhood: predict drew %r whose probability is 0" % (arm,), where)
        self.events.append({"op": "query", "q": list(x), "qg": qg})
        self.queries.append({"event": len(self.events), "q": list(x), "result": result, "twin": twin2, "seed": seed,
                             "ctx": list(ctx[0]), "arms": list(self.arms), "calls": list(self.calls),
                             "tags": ["clusters_readded_arm_pending"] if self.pending_readd else []})

    def query_batch(self, xs):
        """Several context rows in one call: one query event per row, results in row order (C08, C05)."""
        cfg = self.cfg
        m = len(xs)
        self.calls.append({"op": "query_batch", "rows": [list(x) for x in xs]})
        skip = ("arm_to_expectation",) if cfg.lp == "ts" else ()
        before = snapshot(self.mab, rng=False, skip=skip)
        twin = copy.deepcopy(self.mab)
        twin2 = copy.deepcopy(self.mab)
        seeds = [int(s) for s in copy.deepcopy(self.mab._rng).randint(INT32_MAX, size=m)]
        ctx = [cfg.cx(x) for x in xs]
        where = {"event": len(self.events) + 1, "rows": [list(x) for x in xs], "tags": []}
        try:
            result = self.mab.predict_expectations(ctx)
        except Exception as error:  # noqa
            self.finding("predict.exception", "predict_expectations of %d rows raised %s: %s" % (m, type(error).__name__, error), where)
            return
        after = snapshot(self.mab, rng=False, skip=skip)
        if after != before:
            self.readonly_verdict(twin2, before, after, where)
        arms = list(self.mab.arms)
        if not isinstance(result, list) or len(result) != m or any(not isinstance(r, dict) or list(r.keys()) != arms for r in result):
            self.finding("shape.rows", "predict_expectations with %d rows returned %r" % (m, _short(result)), where)
            return
        try:
            picks = twin.predict(ctx)
        except Exception as error:  # noqa
            stale = cfg.no_nhood is not None and len(cfg.no_nhood) != len(arms)
            where["tags"] = ["no_nhood_prob_not_extended_by_add_arm"] if stale else []
            self.finding("predict.exception", "predict raised %s: %s" % (type(error).__name__, error), where)
            picks = None
        if picks is not None:
            if not isinstance(picks, list) or len(picks) != m:
                self.finding("shape.rows", "predict with %d rows returned %r" % (m, picks), where)
            else:
                tree_eps = cfg.np == "tree" and cfg.lp == "eg" and cfg.epsilon > 0
                for arm, row in zip(picks, result):
                    if arm not in arms:
                        self.finding("shape.member", "predict returned %r, not in %r" % (arm, arms), where)
                    elif not all(v != v for v in row.values()) and arm != first_argmax(arms, row) and not tree_eps:
                        self.finding("argmax.first", "predict returned %r for a row whose expectations from the same stream "
                                     "position are %r" % (arm, row), where)
        for i, x in enumerate(xs):
            self.events.append({"op": "query", "q": list(x), "qg": self.geo_query(x)})
            self.queries.append({"event": len(self.events), "q": list(x), "result": result[i], "twin": twin2, "seed": seeds[i],
                                 "arms": list(self.arms), "calls": list(self.calls),
                                 "tags": ["clusters_readded_arm_pending"] if self.pending_readd else []})

    def continuation(self, mab):
        """Outputs of a continuation (training, refit on one arm only, queries) on a deep copy."""
        cfg = self.cfg
        work = copy.deepcopy(mab)
        out = []
        pts = [cfg.cx(r[2]) for r in self.rows[:3]] + [cfg.cx([cfg.grid + 1] * cfg.dims)]
        def train(op, rows):
            d = np.asarray([cfg.cf.lm[a] for a, _, _ in rows])
            r = np.asarray([cfg.cf.reward(x) for _, x, _ in rows])
            c = np.asarray([cfg.cx(x) for _, _, x in rows], dtype=float)
            getattr(work, op)(d, r, c)
        try:
            out.append(work.predict_expectations(pts))
            train("partial_fit", self.rows[:2])
            out.append(work.predict_expectations(pts))
            first = self.rows[0][0]
            only = [r for r in self.rows if r[0] == first] * max(1, cfg.n_clusters if cfg.np == "clusters" else cfg.k)
            train("fit", only[: max(2, cfg.k, cfg.n_clusters)])
            out.append(work.predict_expectations(pts[:2]))
        except Exception as error:  # noqa
            out.append("raised " + type(error).__name__)
        return out

    def readonly_verdict(self, unqueried, before, after, where):
        """A changed snapshot may be an internal cache: the verdict is whether the queried bandit and the copy that was
        never queried, put at the same stream positions, answer a continuation identically."""
        from harness.snap import copy_streams
        other = copy.deepcopy(unqueried)
        if copy_streams(self.mab, other) and same(self.continuation(self.mab), self.continuation(other)):
            return
        self.finding("readonly.changed", "predict_expectations changed the model: %s" % "; ".join(diff(before, after)), where)

    def finding(self, clause, detail, where):
        self.findings.append({"clause": clause, "detail": detail, "op": "query" if "q" in where else where.get("op"),
                              "label": where, "path": list(self.calls), "binding": self.cfg.describe(), "engine": "nb"})

    def trace(self):
        return {"arms": list(self.cfg.arms), "bin": self.cfg.init_bin, "events": self.events}


def _short(v):
    text = repr(v)
    return text if len(text) < 200 else text[:200] + "..."


def grid_points(cfg, rnd, n, whole=False):
    step = int(1 / cfg.ctx_unit) if whole else 1          # whole: coordinates that are whole numbers after scaling
    return [tuple(step * rnd.randrange((cfg.grid + step - 1) // step) for _ in range(cfg.dims)) for _ in range(n)]


def scenario(cfg, rnd, steps=8):
    """One seeded history on a real bandit."""
    rec = Recorder(cfg)
    labels = list(cfg.arms)
    free = list(cfg.extra)
    tiny = 0
    rewards = [0, 1] if (cfg.lp == "ts" and cfg.init_bin == "none") else [0, 1, 2, 3]

    def batch(n, force=None, whole=False):
        rows = []
        for i in range(n):
            pool = [a for a in rec.arms] or labels
            if rec.events and free and rnd.random() < 0.12:
                pool = list(free)        # a logged decision that is not (or no longer) an arm: stored, credited to no arm
            a = force[i] if force and i < len(force) else rnd.choice(pool)
            rows.append((a, rnd.choice(rewards), grid_points(cfg, rnd, 1, whole)[0]))
        return rows

    need = max(cfg.k if cfg.np == "knearest" else 1, cfg.n_clusters if cfg.np == "clusters" else 1)
    first = batch(max(need, rnd.randrange(3, 8)), whole=cfg.int_first)
    if cfg.np == "clusters":
        # k-means needs at least n_clusters distinct points to be meaningful
        pts = list({r[2] for r in first})
        while len(pts) < min(cfg.n_clusters, cfg.grid ** cfg.dims) or len(first) < cfg.n_clusters:
            first.append(batch(1)[0])
            pts = list({r[2] for r in first})
    rec.train("fit", first)
    for _ in range(steps):
        roll = rnd.random()
        if roll < 0.3:
            rec.train("partial_fit", batch(rnd.randrange(1, 4)))
        elif roll < 0.42:
            pts = [rnd.choice(rec.rows)[2] if rnd.random() < 0.5 else tuple(rnd.randrange(-1, cfg.grid + 2) for _ in range(cfg.dims))
                   for _ in range(rnd.randrange(2, 5))]
            rec.query_batch(pts)
        elif roll < 0.78:
            kind = rnd.random()
            if kind < 0.45 and rec.rows:
                x = rnd.choice(rec.rows)[2]          # a stored context
            elif kind < 0.52 and cfg.np == "lsh" and rec.rows and cfg.ctx_unit == 1:
                # a stored context scaled by a tiny or huge positive factor: the signs of the projections are unchanged
                tiny += 1
                row = rnd.choice(rec.rows)[2]
                factor = rnd.choice([1e-9, 1e-12, 1e9])
                rec.query(tuple([-999] * (cfg.dims - 1) + [-3000 - tiny]), real=[float(v) * factor for v in row])
                continue
            elif kind < 0.6 and cfg.np == "lsh" and rec.rows:
                x = tuple(v * rnd.choice([2, 3]) for v in rnd.choice(rec.rows)[2])   # positive multiple
            else:
                x = tuple(rnd.randrange(-1, cfg.grid + 2) for _ in range(cfg.dims))
            rec.query(x)
        elif roll < 0.86 and free:
            rec.add_arm(free.pop(0))
        elif roll < 0.92 and len(rec.arms) > 1:
            victim = rnd.choice(rec.arms)
            rec.remove_arm(victim)
            if rnd.random() < 0.4:
                rec.add_arm(victim)          # the same label comes back at once (at the end of the arm list)
            else:
                free.append(victim)
        else:
            rec.train("fit", batch(max(need, rnd.randrange(2, 6))))
        if cfg.np == "clusters" and rnd.random() < 0.5:
            # queries at the centres, in particular of clusters that received no row (MiniBatchKMeans)
            km = rec.mab._imp.kmeans
            counts = np.bincount(km.labels_, minlength=cfg.n_clusters)
            empty = [c for c in range(cfg.n_clusters) if counts[c] == 0]
            for c in (empty or [rnd.randrange(cfg.n_clusters)])[:2]:
                rec.query(tuple([-999] * (cfg.dims - 1) + [-1000 - c]), real=km.cluster_centers_[c])
    rec.query(rnd.choice(rec.rows)[2])
    return rec


# ---------------------------------------------------------------------------
def constants(cfg):
    return dict(LP=cfg.lp, Thr={"a": 1, "b": 2, "c": 3, "d": 1}, Dev=set(), NP=cfg.np, Labels={"a", "b", "c", "d"},
                InitArms=list(cfg.arms), Rewards={0, 1}, Ctx={(0,)}, Metric=cfg.metric, Radius=tuple(cfg.spec_radius()), K=cfg.k,
                NTables=cfg.n_tables, NSig=2 ** cfg.n_dims, NCells=2, MaxBatch=1, MaxHist=1000000, MaxDepth=1000000,
                Ops={"fit", "partial_fit", "add_arm", "remove_arm", "predict", "predict_expectations"},
                InitBin="none", NewBins={"keep", "thr", "flip", "ge2"})


def validate(cfg, recorders, timeout=900):
    """Runs TraceNbhd over the traces of one constant group; returns per-trace verdicts and query oracles."""
    traces = [rec.trace() for rec in recorders]
    handle, path = tempfile.mkstemp(prefix="nbtrace_", suffix=".json")
    try:
        with os.fdopen(handle, "w") as out:
            json.dump(traces, out)
        result = tlc.run("TraceNbhd", constants(cfg), init="TInit", next_="TNext", view="TView", constraint=None,
                         invariants=["Done"], workers=1, timeout=timeout, env={"TRACE_FILE": path})
    finally:
        os.unlink(path)
    done, fails = set(), {}
    for line in result.raw.splitlines():
        line = line.strip()
        if line.startswith('<<"DONE"'):
            done.add(int(line.split(",")[1].strip(" >")))
        elif line.startswith('<<"FAIL"'):
            parts = [p.strip(' <>"') for p in line.split(",")]
            fails.setdefault(int(parts[1]), (int(parts[2]), parts[3]))
    oracles = {}
    for item in result.edges:
        oracles[(item["tid"], item["l"])] = item["allowed"]
    return result, done, fails, oracles


def expected_maps(cfg, allowed, arms, lm):
    """Evaluates the exact terms of every allowed result: list of {concrete arm: float}, or 'nan'."""
    out = []
    for res in allowed:
        if res.get("nan"):
            out.append("nan")
            continue
        if "tree" in res:
            row = {}
            for label in arms:
                t = res["tree"][label]
                row[lm[label]] = cfg.cf.expected_value(t["expv"]) if t["has"] else 0.0
            out.append(row)
        else:
            out.append({lm[label]: cfg.cf.expected_value(res["expv"][label]) for label in arms})
    return out


def library_policy_on(cfg, twin, sel, q, seed, ctx=None):
    """The library's learning policy trained from scratch on the spec-selected rows, from the row's seed."""
    from mabwiser.utils import create_rng
    imp = twin._imp
    lp = copy.deepcopy(imp.lp)
    lp.rng = create_rng(seed)
    idx = np.asarray([i - 1 for i in sel], dtype=int)
    lp.fit(imp.decisions[idx], imp.rewards[idx], imp.contexts[idx])
    # ctx: the coordinates actually passed (a scaled copy of a stored row carries a placeholder as q)
    return lp.predict_expectations(np.asarray([ctx if ctx is not None else cfg.cx(q)], dtype=float))


def compare_queries(cfg, rec, tid, oracles):
    """Real results against the set of documented results printed by TLC."""
    findings = []
    deterministic = cfg.lp in ("ucb1",) or (cfg.lp == "eg" and cfg.epsilon == 0)
    for query in rec.queries:
        allowed = oracles.get((tid, query["event"]))
        if allowed is None:
            continue
        result = query["result"]
        where = {"event": query["event"], "q": query["q"], "tags": query["tags"], "calls": query["calls"]}
        if not isinstance(result, dict):
            continue
        is_nan = all(v != v for v in result.values())
        if any(res.get("nan") for res in allowed):
            if not is_nan:
                findings.append(("result.nbhd", "empty neighbourhood but expectations are %r (documented: NaN for "
                                 "every arm)" % (result,), where))
            continue
        if is_nan:
            findings.append(("result.nbhd", "expectations are NaN but the documented neighbourhood is not empty: %s"
                             % json.dumps([res.get("sel") for res in allowed]), where))
            continue
        if deterministic:
            maps = expected_maps(cfg, allowed, query["arms"], cfg.cf.lm)
            exact = cfg.lp == "eg"
            ok = False
            for m in maps:
                if all((result[a] == m[a]) if exact else terms.close(float(result[a]), m[a], 1e-12, 1e-15) for a in m):
                    ok = True
                    break
            if not ok:
                findings.append(("result.nbhd", "expectations %r; the documented neighbourhood(s) %s give %r"
                                 % (result, json.dumps([res.get("sel", "leaf") for res in allowed]), maps[:3]), where))
        elif cfg.np in ("radius", "knearest", "lsh", "clusters") and cfg.np != "clusters":
            ok = False
            cands = []
            for res in allowed:
                want = library_policy_on(cfg, query["twin"], res["sel"], query["q"], query["seed"], query.get("ctx"))
                cands.append(want)
                if same(result, want):
                    ok = True
                    break
            if not ok:
                findings.append(("result.nbhd", "expectations %r; the library's learning policy trained on the documented "
                                 "neighbourhood %s from the row's seed gives %r"
                                 % (result, json.dumps([res.get("sel") for res in allowed]), cands[:2]), where))
    return findings
