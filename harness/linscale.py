"""Binding between spec/LinScale.tla (running standardisation of scale=True linear policies over several training calls)
and the real library: every edge TLC explores is executed on a real MAB (one object per specification state, deep-copied
for every outgoing edge); the per-arm StandardScaler, A, Xty and the expectations are compared with the values the exact
segments of the specification state determine."""
import copy
import json
import math
import random
from fractions import Fraction

import numpy as np

from harness import terms, tlc
from harness.common import Machinery

INVARIANTS = ["Inv_C02_RunningMoments", "Inv_C02_Segments", "Inv_C02_LastSegmentCurrent"]
PROPERTIES = ["Prop_C07_FitIsFresh", "Prop_C10_ReadOnly"]
LM = {"a": 1, "b": 2}


def _consts(rnd, d, nbatches, depth):
    def row(arm=None, x=None):
        return {"a": arm or rnd.choice("ab"), "r": rnd.choice([-2, 1, 3]),
                "x": tuple(x) if x else tuple(rnd.randrange(-2, 4) for _ in range(d))}
    batches = []
    const_x = tuple(rnd.randrange(1, 3) for _ in range(d))
    batches.append((row("a", const_x), row("a", const_x)))                 # zero variance: scaled by 1
    batches.append((row("a"),))                                            # single-row online update
    batches.append((row("b"), row("a"), row("b")))
    while len(batches) < nbatches:
        batches.append(tuple(row() for _ in range(rnd.randrange(1, 4))))
    def tl(b):
        return tuple(tlc.Raw('[a |-> "%s", r |-> %s, x |-> %s]' % (r["a"], tlc.tla(r["r"]), tlc.tla(list(r["x"])))) for r in b)
    queries = {(tuple([1] * d),), (tuple([0] * d), tuple([3, -1][:d]))}
    return dict(Arms=["a", "b"], D=d, BatchSet=tlc.Raw("{" + ", ".join(tlc.tla(list(tl(b))) for b in batches) + "}"),
                QuerySets={tuple(tuple(x) for x in q) for q in queries}, MaxCalls=depth, Dev=set())


def _documented(state, label, lam, d):
    """(A, Xty, mean, scale) of an arm from the exact segments of a specification state."""
    A = lam * np.eye(d)
    B = np.zeros(d)
    for seg in state["segs"][label]:
        s = np.array([math.sqrt(float(terms.frac(v))) for v in seg["s2"]])
        C = np.array([[float(terms.frac(v)) for v in r] for r in seg["C"]]).reshape(d, d)
        c = np.array([float(terms.frac(v)) for v in seg["c"]])
        A = A + C / np.outer(s, s)
        B = B + c / s
    n = state["n"][label]
    mean = np.array([float(terms.frac(v)) for v in state["mean"][label]])
    var = np.array([float(terms.frac(v)) for v in state["var"][label]])
    scale = np.where(var == 0, 1.0, np.sqrt(var)) if n else np.ones(d)
    return A, B, mean, var, scale, n


def _close(a, b, tol=1e-9):
    return np.allclose(np.asarray(a, dtype=float), np.asarray(b, dtype=float), rtol=tol, atol=tol)


def _mab(reg, alpha, lam, seed):
    from mabwiser.mab import MAB, LearningPolicy as LP
    lp = {"ridge": LP.LinGreedy(epsilon=0.0, l2_lambda=lam, scale=True), "ucb": LP.LinUCB(alpha=alpha, l2_lambda=lam, scale=True),
          "ts": LP.LinTS(alpha=alpha, l2_lambda=lam, scale=True)}[reg]
    return MAB([LM["a"], LM["b"]], lp, seed=seed)


def _call(mab, label, container):
    if label["op"] in ("fit", "partial_fit"):
        rows = label["batch"]
        dec = [LM[r["a"]] for r in rows]
        rew = [float(r["r"]) for r in rows]
        ctx = [[float(v) for v in r["x"]] for r in rows]
        if container == "int":
            ctx = np.asarray([[int(v) for v in r["x"]] for r in rows], dtype=int)
        elif container == "ndarray":
            dec, rew, ctx = np.asarray(dec), np.asarray(rew), np.asarray(ctx)
        return getattr(mab, label["op"])(dec, rew, ctx)
    return mab.predict_expectations([[float(v) for v in x] for x in label["X"]])


def run(report, findings):
    rnd = random.Random(1000 + report.seed)
    thorough = report.tier == "thorough"
    for d in (1, 2):
        consts = _consts(rnd, d, 6 if thorough else 4, 5 if thorough else 4)
        result = tlc.run("LinScale", consts, invariants=INVARIANTS, properties=PROPERTIES, emit=True, timeout=900)
        if result.violated:
            raise Machinery("LinScale.tla: %s violated in the clean model" % result.violated)
        report.add_tlc("LinScale/d=%d" % d, result, INVARIANTS, PROPERTIES,
                       note="running standardisation over %d training calls, %d batches" % (consts["MaxCalls"], 6 if thorough else 4))
        bindings = [("ucb", 1.25, 0.5, "ndarray"), ("ridge", 0.0, 4.0, "list"), ("ts", 1e-9, 2.0, "int")]
        if not thorough:
            bindings = [bindings[(report.seed + d) % 3], bindings[(report.seed + d + 1) % 3]]
        for reg, alpha, lam, container in bindings:
            binding = {"lp": "lin-" + reg, "scale": True, "l2_lambda": lam, "d": d, "container": container}
            objs, paths = {}, {}
            stop = False
            for edge in result.edges:
                skey = json.dumps(edge["s"], sort_keys=True)
                tkey = json.dumps(edge["t"], sort_keys=True)
                if not edge["s"]["fitted"] and skey not in objs:
                    objs[skey], paths[skey] = _mab(reg, alpha, lam, 7), []
                if skey not in objs:
                    raise Machinery("LinScale replay: edge from a state never reached")
                label, state = edge["l"], edge["t"]
                path = paths[skey] + [label]
                obj = copy.deepcopy(objs[skey])

                def fail(clause, detail):
                    findings.append({"clause": clause, "op": label["op"], "engine": "linscale", "path": path, "detail": detail,
                                     "label": label, "binding": binding})
                try:
                    value = _call(obj, label, container)
                except Exception as error:  # noqa
                    fail("call.exception", "%s raised %s: %s" % (label["op"], type(error).__name__, error))
                    break
                report.replayed += 1
                if label["op"] != "predict_expectations":
                    if tkey not in objs:
                        objs[tkey], paths[tkey] = obj, path
                    for lab, arm in LM.items():
                        A, B, mean, var, scale, n = _documented(state, lab, lam, d)
                        model = obj._imp.arm_to_model[arm]
                        sc = model.scaler
                        if n == 0:
                            if hasattr(sc, "scale_") or not _close(model.A, A) or not _close(model.Xty, B):
                                fail("state.scaled_unobserved", "arm %s has no row since the last fit, but its scaler is trained "
                                     "or A / Xty are not lambda*I / 0: A = %s" % (lab, np.asarray(model.A).tolist()))
                                stop = True
                            continue
                        got_n = int(np.max(sc.n_samples_seen_))
                        if got_n != n or not _close(sc.mean_, mean, 1e-10) or not _close(sc.var_, var, 1e-10) \
                                or not _close(sc.scale_, scale, 1e-10):
                            fail("state.scaler", "arm %s after %d training call(s): scaler (n, mean, var, scale) = (%s, %s, %s, %s); "
                                 "the moments of all %d rows of the arm since the last fit are mean %s, var %s, scale %s"
                                 % (lab, len(state["segs"][lab]), got_n, sc.mean_.tolist(), sc.var_.tolist(), sc.scale_.tolist(),
                                    n, mean.tolist(), var.tolist(), scale.tolist()))
                            stop = True
                        elif not _close(model.A, A) or not _close(model.Xty, B):
                            fail("state.scaled_A", "arm %s: A = %s, Xty = %s; documented lambda*I + sum_k Z_k'Z_k = %s, sum_k Z_k'y = %s "
                                 "(each batch standardised with the moments reached after it)"
                                 % (lab, np.asarray(model.A).tolist(), np.asarray(model.Xty).tolist(), A.tolist(), B.tolist()))
                            stop = True
                else:
                    rows = value if isinstance(value, list) else [value]
                    tol = 1e-6 if reg == "ts" else 1e-9
                    report.count("linscale.queries")
                    for lab, arm in LM.items():
                        A, B, mean, var, scale, n = _documented(edge["s"], lab, lam, d)
                        beta = np.linalg.solve(A, B)
                        for i, x in enumerate(label["X"]):
                            z = (np.array([float(v) for v in x]) - mean) / scale if n else np.array([float(v) for v in x])
                            want = float(z @ beta)
                            if reg == "ucb":
                                if n == 0:
                                    continue        # covariance of a never-observed arm: decided by Lin.tla (known finding F2)
                                want += alpha * math.sqrt(float(z @ np.linalg.solve(A, z)))
                            got = float(rows[i][arm])
                            if not terms.close(got, want, tol, tol):
                                fail("result.scaled", "row %d arm %s: predict_expectations %r; the query standardised with the arm's "
                                     "current moments against the documented model gives %r" % (i + 1, lab, got, want))
                                stop = True
                                break
                        if stop:
                            break
                if stop:
                    break
            report.nontrivial.update(("linscale", d, reg, k) for k in list(objs)[:400])
    for dev, expect in (("ChanNoCross", "Inv_C02_RunningMoments"), ("ScaleByStaleMoments", "Inv_C02_LastSegmentCurrent")):
        consts = _consts(random.Random(5), 1, 4, 3)
        consts["Dev"] = {dev}
        neg = tlc.run("LinScale", consts, invariants=INVARIANTS, properties=PROPERTIES, timeout=300, workers=4)
        report.states += neg.states
        report.transitions += neg.generated
        report.negatives.append({"deviation": dev, "module": "LinScale", "expected_counterexample_to": expect,
                                 "tlc_reported": neg.violated, "ok": neg.violated is not None})
        if neg.violated is None:
            raise Machinery("deviation %s (LinScale) produced no counterexample" % dev)
        if not thorough and report.seed % 2 == 0:
            break
