"""Binding of spec/Life.tla (policy-agnostic life cycle) to any learning x neighbourhood policy combination.

Rows of the abstract data set 1..NRows are mapped to a seeded concrete data set (small integer context grid,
rewards that every policy of the combination accepts).  The replay engine of harness/cf.py does the rest:
confluence of chunkings (C06), refit versus fresh (C07), shapes and keys (C08), first-argmax (C09), read-only
queries (C10), rejected calls (C17), clones (C19).
"""
import copy
import json
import random
from fractions import Fraction

import numpy as np

from harness import binarizers
from harness.cf import LABEL_MAPS, first_argmax, rows_of
from harness.snap import snapshot, diff, same

LPS = ["eg", "ucb1", "softmax", "pop", "ts", "random", "lin-ucb", "lin-ts", "lin-greedy"]
NPS = [None, "radius", "knearest", "lsh", "clusters", "tree", "clusters-mb"]


def valid(lp, np_):
    if np_ == "tree":
        return lp in ("eg", "ucb1", "ts")
    return True


class GenBinding:
    def __init__(self, lp="eg", np_=None, labelmap="int", seed=9, n_jobs=1, backend=None, data_seed=5, dims=2, bin_name="none",
                 epsilon=0.0, container="ndarray", nrows=10, perm_seed=None, shift=0, scale=1, preconv=None, addarm_bin=None,
                 binary_rewards=False, lin_scale=False, runit=1):
        self.runit = runit                        # rewards are this many units (0.5: halves occur among whole numbers)
        self.lin_scale = lin_scale                # linear policies standardise the contexts (scale=True)
        self.binary_rewards = binary_rewards      # rewards in {0, 1} whatever the binarizer set-up
        self.preconv = preconv          # rewards are converted by this binarizer in the binding (no binarizer installed)
        self.addarm_bin = addarm_bin    # add_arm installs this binarizer (or, with preconv, the binding switches to it)
        self.perm_seed = perm_seed
        self.shift = shift
        self.scale = scale
        self._args = None
        self.lp = lp
        self.np = np_
        self.lmname = labelmap
        self.lm = dict(LABEL_MAPS[labelmap])
        self.inv = {v: k for k, v in self.lm.items()}
        self.seed = seed
        self.n_jobs = n_jobs
        self.backend = backend
        self.dims = dims
        self.bin_name = bin_name
        self.epsilon = epsilon
        self.container = container
        self.contextual = np_ is not None or lp.startswith("lin-")
        self.data_seed = data_seed
        rnd = random.Random(data_seed)
        labels = ["a", "b", "c"]
        self.data = []
        for i in range(nrows):
            label = labels[i % 3] if i < 6 else rnd.choice(labels + ["d"])
            if (lp == "ts" and bin_name == "none" and preconv is None) or binary_rewards:
                reward = rnd.choice([0, 1])
            else:
                reward = rnd.choice([0, 1, 2, 3])
            # the later rows have fractional (dyadic) contexts: a history that starts with whole numbers and continues
            # with fractions must not be truncated to integers
            frac = 0.5 if i >= 6 and i % 2 == 0 else 0.0
            self.data.append((label, reward, tuple(rnd.randrange(3) + frac for _ in range(dims))))
        self.queries = [tuple(rnd.randrange(-1, 4) for _ in range(dims)) for _ in range(4)] + [self.data[0][2]]
        # a and b share a feature vector: a cold arm is exactly equally distant from two trained arms (tie-breaks)
        self.feat = {"a": [3, 4], "b": [3, 4], "c": [4, 3], "d": [5, 0]}
        binarizers.configure({self.lm[k]: float(v) for k, v in {"a": 1, "b": 2, "c": 3, "d": 1}.items()}, 1.0)
        self.confluence_ok = np_ != "tree"
        self.single_fit_confluence = True
        self.strict_snapshots = False       # internal template policies may differ unobservably: decide by outputs
        self.probe_steps = [("predict_expectations", 5), ("predict", 5), ("cold_arms",), ("partial_fit", [7, 8]),
                            ("predict_expectations", 3)]
        self.min_fit = {"clusters": 2, "clusters-mb": 2, "knearest": 2}.get(np_, 1)

    def describe(self):
        return {"lp": self.lp, "np": self.np, "labels": self.lmname, "seed": self.seed, "n_jobs": self.n_jobs,
                "backend": self.backend, "dims": self.dims, "bin": self.bin_name, "epsilon": self.epsilon,
                "container": self.container, "data_seed": self.data_seed, "perm_seed": self.perm_seed,
                "shift": self.shift, "scale": self.scale, "preconv": self.preconv, "addarm_bin": self.addarm_bin,
                "binary_rewards": self.binary_rewards, "lin_scale": self.lin_scale, "runit": self.runit}

    def probe_labels(self, mab, full):
        first = self.spec_label(mab.arms[0])
        q = [{"op": "predict_expectations", "m": 5}, {"op": "predict", "m": 5}, {"op": "cold_arms"}]
        base = q + [{"op": "partial_fit", "rows": [7, 8]}, {"op": "predict_expectations", "m": 3}]
        if not full:
            return [base]
        again = getattr(mab, "_verif_last_fit", None)
        # the caller fits everything presented since the last fit once more (the same array objects if it was one call)
        refit = [[{"op": "fit", "rows": list(again)}] + q] if again and len(again) >= self.min_fit else []
        return refit + [base,
                [{"op": "warm_start", "q": [1, 2]}, {"op": "cold_arms"}] + q,
                [{"op": "partial_fit", "rows": [9, 10]}] + q,
                [{"op": "add_arm", "arm": "d"}] + q + [{"op": "partial_fit", "rows": [7, 8, 9, 10]}] + q,
                [{"op": "remove_arm", "arm": first}] + q,
                [{"op": "fit", "rows": [2, 2]}] + q + [{"op": "warm_start", "q": [1, 1]}] + q,
                [{"op": "fit", "rows": [5, 2, 4]}] + q]      # refits of two and of three rows: as many as a short history had

    def independent_arms(self):
        """One self-contained model per arm, deterministic expectations."""
        return self.np is None and (self.lp in ("lin-ucb",) or (self.lp in ("eg", "lin-greedy") and self.epsilon == 0))

    def skip(self):
        return ("arm_to_expectation",) if self.lp == "ts" and self.np is None else ()

    # ---- construction ------------------------------------------------------
    def policies(self):
        from mabwiser.mab import LearningPolicy as LP, NeighborhoodPolicy as NP
        lp = {"eg": LP.EpsilonGreedy(self.epsilon), "ucb1": LP.UCB1(1.25), "softmax": LP.Softmax(2), "pop": LP.Popularity(),
              "ts": LP.ThompsonSampling(binarizers.BY_NAME[self.bin_name]), "random": LP.Random(),
              "lin-ucb": LP.LinUCB(1.25, 0.5, self.lin_scale), "lin-ts": LP.LinTS(0.5, 2.0, self.lin_scale),
              "lin-greedy": LP.LinGreedy(self.epsilon, 1.0, self.lin_scale)}[self.lp]
        np_ = {None: None, "radius": NP.Radius(2.0, "cityblock"), "knearest": NP.KNearest(2, "chebyshev"),
               "lsh": NP.LSHNearest(2, 2), "clusters": NP.Clusters(2), "tree": NP.TreeBandit(),
               "clusters-mb": NP.Clusters(2, True)}[self.np]
        return lp, np_

    def new(self, arms, bin_name="none"):
        from mabwiser.mab import MAB
        lp, np_ = self.policies()
        given = [self.lm[a] for a in arms]
        mab = MAB(given, lp, np_, seed=self.seed, n_jobs=self.n_jobs, backend=self.backend)
        self.given_arms = (given, list(given), mab)
        return mab

    # ---- arguments ----------------------------------------------------------
    WIDE = 100

    def row(self, i):
        if i > self.WIDE:
            a, r, x = self.data[(i - self.WIDE - 1) % len(self.data)]
            return a, r, tuple(x) + (float((i * 7) % 3),)           # the same observations with one more feature column
        return self.data[i - 1]

    def batch(self, ids, mab=None):
        rows = [self.row(i) for i in ids]
        if mab is not None and self.contextual:
            mab._verif_width = len(rows[0][2])
        conv = getattr(mab, "_verif_bin", None) or self.preconv
        # a caller that presents the same rows again passes the very same objects again
        memo = self.__dict__.setdefault("_batch_memo", {})
        key = (tuple(ids), conv)
        if key in memo:
            return memo[key]
        memo[key] = out = self._make_batch(ids, rows, conv)
        return out

    def _make_batch(self, ids, rows, conv):
        if conv:
            fn = binarizers.BY_NAME[conv]
            rows = [(a, float(fn(self.lm[a], float(x))), c) for a, x, c in rows]
        if self.perm_seed is not None:
            rows = list(rows)
            random.Random(self.perm_seed * 1000 + len(ids) + ids[0]).shuffle(rows)
        d = [self.lm[a] for a, _, _ in rows]
        binary = self.lp == "ts" and self.bin_name == "none" and not self.preconv
        r = [int(x) for _, x, _ in rows] if binary else [float(x) * self.runit * self.scale + self.shift for _, x, _ in rows]
        c = [[float(v) for v in x] for _, _, x in rows]
        kind = self.container
        if kind == "list":
            pass
        elif kind == "mixed":
            # plain Python lists as a caller writes them: whole numbers as ints, the others as floats, in one list
            r = [int(v) if float(v) == int(v) else float(v) for v in r]
            c = [[int(v) if float(v) == int(v) else float(v) for v in row] for row in c]
        elif kind == "pandas":
            import pandas as pd
            d, r, c = pd.Series(d), pd.Series(r), pd.DataFrame(c)
        elif kind == "series1" and self.dims == 1:
            # a Series is a column of single-feature rows, or (with one decision) one row of several features (Orient.tla)
            import pandas as pd
            width = len(c[0])
            if width == 1:
                ctx = pd.Series([row[0] for row in c])
            elif len(c) == 1:
                ctx = pd.Series(c[0])
            else:
                ctx = np.asarray(c)
            d, r, c = np.asarray(d), np.asarray(r), ctx
        elif kind == "fortran":
            d, r, c = np.asarray(d), np.asarray(r), np.asfortranarray(np.asarray(c))
        elif kind == "f32":
            # training contexts in single precision (exactly representable values), query contexts in double precision
            d, r, c = np.asarray(d), np.asarray(r), np.asarray(c, dtype="float32")
        elif kind == "view":
            wide = np.zeros((len(c), 2 * self.dims))
            wide[:, ::2] = np.asarray(c)
            big = np.zeros(2 * len(r))
            big[::2] = r
            d, r, c = np.asarray(d), (big[::2] if not binary else np.asarray(r)), wide[:, ::2]
        elif kind == "int":
            # whole numbers are passed as integer arrays, anything else as floats (per call, as a caller would)
            d = np.asarray(d)
            c = np.asarray(c) if any(float(v) != int(v) for row in c for v in row) else np.asarray(c).astype(int)
            r = np.asarray(r) if any(float(x) != int(x) for x in r) else np.asarray(r).astype(int)
        else:
            d, r, c = np.asarray(d), np.asarray(r), np.asarray(c)
        return (d, r, c) if self.contextual else (d, r)

    def query_args(self, m, mab=None):
        ctx = self.contexts(m, mab)
        if ctx is None:
            return None
        kind = self.container
        if kind == "pandas":
            import pandas as pd
            return pd.DataFrame(ctx)
        if kind == "series1" and self.dims == 1:
            import pandas as pd
            if len(ctx[0]) == 1:
                return pd.Series([row[0] for row in ctx])
            if len(ctx) == 1:
                return pd.Series(ctx[0])
            return np.asarray(ctx)
        if kind == "fortran":
            return np.asfortranarray(np.asarray(ctx))
        if kind == "view":
            wide = np.zeros((len(ctx), 2 * self.dims))
            wide[:, ::2] = np.asarray(ctx)
            return wide[:, ::2]
        if kind == "int":
            return np.asarray(ctx).astype(int)
        if kind == "list":
            return ctx
        return np.asarray(ctx)

    def remember(self, args):
        import pickle
        self._args = [(a, pickle.dumps(a, protocol=4)) for a in args if a is not None]
        return args

    def caller_changed(self):
        import pickle
        if not self._args:
            return None
        for obj, before in self._args:
            if pickle.dumps(obj, protocol=4) != before:
                return "%s of %d elements" % (type(obj).__name__, len(obj))
        return None

    def extra_output(self, mab):
        if self.lp == "softmax" and self.np is None:
            out = dict(mab._imp.arm_to_expectation)
            if not all(mab._imp.arm_to_count[a] > 0 for a in mab.arms):
                out = {a: float("nan") for a in out}          # the shift law is stated for histories with every arm observed
            return out
        return None

    def agree(self, got, want, base):
        """Relation between this binding's outputs and the reference binding's (C20 reward laws)."""
        if self.shift == 0 and self.scale == 1:
            return base(got, want, 1e-9 if self.perm_seed is not None else 0.0)
        op, g, gx = got
        _, w, wx = want
        if op != "predict_expectations":
            return True
        if self.lp == "softmax":
            if any(v != v for _, v in gx) or any(v != v for _, v in wx):
                return True
            return base(gx, wx, 1e-9)
        rows_g = g if isinstance(g, list) and g and isinstance(g[0], list) else [g]
        rows_w = w if isinstance(w, list) and w and isinstance(w[0], list) else [w]
        for rg, rw in zip(rows_g, rows_w):
            for (ag, vg), (aw, vw) in zip(rg, rw):
                want_v = vw * self.scale + (self.shift if self.lp in ("eg", "ucb1") else 0)
                if not (abs(vg - want_v) <= 1e-9 * max(1.0, abs(want_v)) or (vw == 0 and vg == 0)):
                    return False
        return True

    def contexts(self, m, mab=None):
        if m == 0 and not self.contextual:
            return None
        width = getattr(mab, "_verif_width", self.dims) if self.contextual else self.dims
        rows = [[float(v) for v in self.queries[i % len(self.queries)]] for i in range(max(m, 1))]
        return [row + [1.0] * (width - len(row)) for row in rows]

    # ---- calls -----------------------------------------------------------------
    def call(self, mab, label, feat=None):
        op = label["op"]
        try:
            if op in ("fit", "partial_fit"):
                # the rows presented since the last fit (a function of the specification state, whatever the chunking)
                if op == "fit" or not getattr(mab, "_is_initial_fit", False):
                    mab._verif_last_fit = list(label["rows"])
                else:
                    mab._verif_last_fit = list(getattr(mab, "_verif_last_fit", [])) + list(label["rows"])
                return "ok", getattr(mab, op)(*self.remember(self.batch(label["rows"], mab)))
            if op == "add_arm":
                if self.addarm_bin and not self.preconv:
                    return "ok", mab.add_arm(self.lm[label["arm"]], binarizers.BY_NAME[self.addarm_bin])
                if self.addarm_bin:
                    mab._verif_bin = self.addarm_bin
                return "ok", mab.add_arm(self.lm[label["arm"]])
            if op == "remove_arm":
                return "ok", mab.remove_arm(self.lm[label["arm"]])
            if op == "warm_start":
                q = Fraction(int(label["q"][0]), int(label["q"][1]))
                feats = {self.lm[a]: list(v) for a, v in self.feat.items() if self.lm[a] in mab.arms}
                self.remember((feats,))
                return "ok", mab.warm_start(feats, float(q))
            if op in ("predict", "predict_expectations"):
                return "ok", getattr(mab, op)(*self.remember((self.query_args(label["m"], mab),)))
            if op == "reject":
                return self.reject(mab, label["kind"])
        except Exception as error:  # noqa
            return type(error).__name__, error
        raise ValueError(op)

    def reject(self, mab, kind):
        arms = list(mab.arms)
        first = arms[0]
        unknown = [v for v in self.lm.values() if v not in arms] + [{"int": 777, "int0": 777, "str": "zz", "float": 77.5}[self.lmname]]
        r1 = 1 if self.lp == "ts" else 1.0
        ctx1 = [[0.0] * self.dims]
        ctx2 = [[0.0] * self.dims, [1.0] * self.dims]
        wide = [[0.0] * (self.dims + 1), [1.0] * (self.dims + 1)]
        C = (lambda rows: (rows,)) if self.contextual else (lambda rows: ())
        table = {
            "fit_len_mismatch": lambda: mab.fit([first, first], [r1], *C(ctx2)),
            "pfit_len_mismatch": lambda: mab.partial_fit([first], [r1, r1], *C(ctx1)),
            "fit_bad_type": lambda: mab.fit("ab", [r1, r1], *C(ctx2)),
            "pfit_nan_reward": lambda: mab.partial_fit([first, first], [r1, float("nan")], *C(ctx2)),
            "pfit_inf_reward": lambda: mab.partial_fit([first], [float("inf")], *C(ctx1)),
            "fit_missing_contexts": lambda: mab.fit([first], [r1]),
            "pfit_missing_contexts": lambda: mab.partial_fit([first], [r1]),
            "pfit_wrong_columns": lambda: mab.partial_fit([arms[1], first], [r1, r1], wide),
            "pfit_row_length": lambda: mab.partial_fit([first, first], [r1, r1], ctx1),
            "ctx_1d": lambda: mab.partial_fit([first], [r1], [0.0] * self.dims),
            "ctx_3d": lambda: mab.partial_fit([first], [r1], [[[0.0] * self.dims]]),
            "clusters_too_few_rows": lambda: mab.fit([first], [r1], ctx1),
            # the FIRST training call of a never-fitted bandit made through partial_fit (it trains from scratch) and rejected
            # inside training: the bandit must still be unfitted afterwards
            "first_pfit_too_few_rows": lambda: mab.partial_fit([first], [r1], ctx1),
            "predict_missing_contexts": lambda: mab.predict(),
            "predict_bad_context_type": lambda: mab.predict_expectations("abc"),
            "predict_unfitted": lambda: mab.predict(*C(ctx1)),
            "predict_exp_unfitted": lambda: mab.predict_expectations(*C(ctx1)),
            "add_duplicate": lambda: mab.add_arm(first),
            "add_none": lambda: mab.add_arm(None),
            "add_nan": lambda: mab.add_arm(np.nan),
            "add_inf": lambda: mab.add_arm(np.inf),
            "add_binarizer_non_ts": lambda: mab.add_arm(unknown[0], binarizers.flip),
            "add_binarizer_not_callable": lambda: mab.add_arm(unknown[0], "not a function"),
            "remove_unknown": lambda: mab.remove_arm(unknown[0]),
            "ws_not_dict": lambda: mab.warm_start([1, 2], 0.5),
            "ws_quantile_range": lambda: mab.warm_start({a: [1.0, 0.0] for a in arms}, 1.5),
            "ws_arms_mismatch": lambda: mab.warm_start({first: [1.0, 0.0]}, 0.5),
        }
        if kind.startswith("construct_"):
            from mabwiser.mab import MAB
            lp, np_ = self.policies()
            good = list(arms)
            bad = {
                "construct_arms_not_list": lambda: MAB(tuple(good), lp, np_),
                "construct_arms_duplicate": lambda: MAB(good + [good[0]], lp, np_),
                "construct_arms_none": lambda: MAB(good + [None], lp, np_),
                "construct_arms_nan": lambda: MAB(good + [np.nan], lp, np_),
                "construct_arms_inf": lambda: MAB(good + [np.inf], lp, np_),
                "construct_lp_type": lambda: MAB(good, "greedy", np_),
                "construct_np_type": lambda: MAB(good, lp, "radius"),
                "construct_seed_type": lambda: MAB(good, lp, np_, seed=1.5),
                "construct_njobs_zero": lambda: MAB(good, lp, np_, n_jobs=0),
                "construct_njobs_type": lambda: MAB(good, lp, np_, n_jobs=1.0),
                "construct_backend_type": lambda: MAB(good, lp, np_, backend=3),
            }
            try:
                value = bad[kind]()
            except Exception as error:  # noqa
                return type(error).__name__, error
            return "ok", value
        if kind == "pfit_wrong_columns" and self.np == "tree":
            trees = getattr(mab._imp, "arm_to_tree", {})
            if not any(hasattr(t, "n_features_in_") for t in trees.values()):
                return "skip", None      # no current arm has a fitted tree: any width is accepted, nothing is rejected
        try:
            value = table[kind]()
        except Exception as error:  # noqa
            return type(error).__name__, error
        return "ok", value

    def reject_kinds(self):
        kinds = {"fit_len_mismatch", "pfit_len_mismatch", "fit_bad_type", "pfit_nan_reward", "pfit_inf_reward",
                 "predict_unfitted", "predict_exp_unfitted", "predict_bad_context_type", "add_duplicate", "add_none",
                 "add_nan", "add_inf", "remove_unknown", "ws_not_dict", "ws_quantile_range", "ws_arms_mismatch"}
        kinds |= {"construct_arms_not_list", "construct_arms_duplicate", "construct_arms_none", "construct_arms_nan",
                  "construct_arms_inf", "construct_lp_type", "construct_np_type", "construct_seed_type", "construct_njobs_zero",
                  "construct_njobs_type", "construct_backend_type"}
        if self.lp != "ts":
            kinds.add("add_binarizer_non_ts")
        else:
            kinds.add("add_binarizer_not_callable")
        if self.contextual:
            kinds |= {"fit_missing_contexts", "pfit_missing_contexts", "pfit_wrong_columns", "pfit_row_length", "ctx_1d",
                      "ctx_3d", "predict_missing_contexts"}
        if self.np in ("clusters", "clusters-mb"):
            kinds.add("clusters_too_few_rows")
            kinds.add("first_pfit_too_few_rows")
        return kinds

    # ---- comparison ------------------------------------------------------------
    def spec_label(self, arm):
        return self.inv.get(arm, "?%r" % (arm,))

    def compare_state(self, mab, state):
        out = []
        arms = [self.spec_label(a) for a in mab.arms]
        if arms != state["arms"]:
            return [("state.arms", "arms %s, spec %s" % (arms, state["arms"]))]
        if bool(mab._is_initial_fit) != bool(state["fitted"]):
            out.append(("state.fitted", "fitted %s, spec %s" % (mab._is_initial_fit, state["fitted"])))
        imp = mab._imp
        # the public policy properties report the configuration the bandit was built with, at every point of its life
        lp, np_ = self.policies()
        try:
            got_lp, got_np = mab.learning_policy, mab.neighborhood_policy
            if type(got_lp) is not type(lp) or tuple(got_lp) != tuple(lp):
                out.append(("state.policy", "learning_policy reports %r, constructed with %r" % (got_lp, lp)))
            if (np_ is None) != (got_np is None) or (np_ is not None and type(got_np) is not type(np_)):
                out.append(("state.policy", "neighborhood_policy reports %r, constructed with %r" % (got_np, np_)))
            elif np_ is not None and self.np != "tree" and tuple(got_np) != tuple(np_):
                out.append(("state.policy", "neighborhood_policy reports %r, constructed with %r" % (got_np, np_)))
        except NotImplementedError:
            pass
        if list(getattr(imp, "arms", mab.arms)) != list(mab.arms):
            out.append(("state.keys", "implementation arm list %s, MAB.arms %s" % (imp.arms, mab.arms)))
        for name, value in vars(imp).items():
            if name.startswith("arm_to_") and isinstance(value, dict) and list(value.keys()) != list(mab.arms):
                out.append(("state.keys", "%s has keys %s, arms are %s" % (name, list(value.keys()), list(mab.arms))))
        # the stored history of neighbourhood policies is exactly the rows presented since the last fit
        if state["fitted"] and self.np in ("radius", "knearest", "lsh", "clusters", "clusters-mb") and getattr(imp, "decisions", None) is not None:
            ids = state["rows"]
            want_d = [self.lm[self.row(i)[0]] for i in ids]
            want_c = [[float(v) for v in self.row(i)[2]] for i in ids]
            got_d = [a.item() if hasattr(a, "item") else a for a in list(imp.decisions)]
            if got_d != want_d or not (len(imp.rewards) == len(imp.contexts) == len(ids)) \
                    or np.asarray(imp.contexts, dtype=float).tolist() != want_c:
                out.append(("state.history", "stored history has decisions %s (rewards %d, contexts %d rows); the rows "
                            "presented since the last fit are %s" % (got_d, len(imp.rewards), len(imp.contexts), want_d)))
        return out

    def check_query(self, rep, obj, twin, label, value, before, skey, skip):
        op, m = label["op"], label["m"]
        arms = list(obj.arms)
        if "readonly" in rep.checks:
            rep.check_readonly(obj, twin, op, before, skey, label, skip)
        rows, shape_ok = rows_of(value, m)
        if "shape" in rep.checks and not shape_ok:
            rep.report("shape.rows", "%s with %d rows returned %s" % (op, m, type(value).__name__), skey, label)
            return
        if op == "predict_expectations":
            if "shape" in rep.checks:
                for row in rows:
                    if not isinstance(row, dict) or list(row.keys()) != arms:
                        rep.report("shape.keys", "expectation keys %s, arms %s"
                                   % (list(row.keys()) if isinstance(row, dict) else row, arms), skey, label)
                        return
        else:
            if "shape" in rep.checks:
                for arm in rows:
                    if arm not in arms:
                        rep.report("shape.member", "predict returned %r, not in arms %s" % (arm, arms), skey, label)
                        return
            tree_eps = self.np == "tree" and self.lp == "eg" and self.epsilon > 0
            if "argmax" in rep.checks and not tree_eps:
                exps = twin.predict_expectations(self.contexts(m, twin))
                erows, _ = rows_of(exps, m)
                want = [None if all(v != v for v in row.values()) else first_argmax(arms, row) for row in erows]
                got = [a.item() if hasattr(a, "item") else a for a in rows]
                bad = [i for i, (g, w) in enumerate(zip(got, want)) if w is not None and g != (w.item() if hasattr(w, "item") else w)]
                if bad:
                    rep.report("argmax.first", "predict returned %s; first maximisers of the expectations from the same "
                               "stream position are %s (%s)" % (got, want, repr(erows)[:300]), skey, label)
