"""C04: seeded runs are reproducible and bandit instances are isolated (spec/Multi.tla).

Every interleaving TLC emits of the observed script A with the interferer script B is executed in-process on
real objects for every learning x neighbourhood combination (including default-constructed policy tuples); the
digest of A's outputs must equal the digest of A run alone.  The same digests are computed in fresh interpreters
under different PYTHONHASHSEED values.
"""
import hashlib
import json
import os
import random as pyrandom
import subprocess
import sys
import warnings

import copy

import numpy as np

from harness.snap import snapshot

SCRIPT_A = ["construct", "fit", "predict", "add_arm", "warm_start", "predict_expectations", "partial_fit", "predict"]
SCRIPT_B = ["construct", "global_draw", "partial_fit", "fit", "global_seed", "predict"]

LPS = ["eg", "ucb1", "softmax", "pop", "ts", "random", "lin-ucb", "lin-ts", "lin-greedy", "default-eg", "default-ts",
       "lin-ts-tiny"]      # l2_lambda 1e-14 with two identical feature columns: a numerically singular covariance
NPS = [None, "radius", "knearest", "lsh", "clusters", "tree", "default-tree", "default-lsh", "default-clusters"]


def valid(lp, np_):
    if np_ in ("tree", "default-tree"):
        return lp in ("eg", "ucb1", "ts", "default-eg", "default-ts")
    return True


def policies(lp, np_):
    from mabwiser.mab import LearningPolicy as LP, NeighborhoodPolicy as NP
    lpo = {"eg": LP.EpsilonGreedy(0.3), "ucb1": LP.UCB1(1.25), "softmax": LP.Softmax(2), "pop": LP.Popularity(),
           "ts": LP.ThompsonSampling(), "random": LP.Random(), "lin-ucb": LP.LinUCB(1.25, 0.5), "lin-ts": LP.LinTS(0.5, 2.0),
           "lin-greedy": LP.LinGreedy(0.3, 1.0), "lin-ts-tiny": LP.LinTS(0.5, 1e-14), "default-eg": LP.EpsilonGreedy(), "default-ts": LP.ThompsonSampling()}[lp]
    npo = {None: None, "radius": NP.Radius(2.0, "cityblock"), "knearest": NP.KNearest(2), "lsh": NP.LSHNearest(2, 2),
           "clusters": NP.Clusters(2), "tree": NP.TreeBandit({"max_depth": 2}), "default-tree": NP.TreeBandit(),
           "default-lsh": NP.LSHNearest(), "default-clusters": NP.Clusters()}[np_]
    return lpo, npo


def data(lp, strings):
    """Training data with two identical feature columns (tied splits: the tree's random_state matters) and query
    contexts that tell the columns apart."""
    arms = ["m", "z", "b"] if strings else [10, 20, 5]
    rnd = pyrandom.Random(17)
    n = 18
    d = [arms[i % 3] for i in range(n)]
    binary = "ts" in lp
    r = [float(rnd.choice([0, 1])) if binary else float(rnd.choice([0, 1, 2, 3])) for _ in range(n)]
    col = [float(rnd.randrange(4)) for _ in range(n)]
    c = [[v, v, float(rnd.randrange(3))] for v in col]
    if lp == "lin-ts-tiny":       # fractional values: the covariance alpha^2 A^-1 is then not numerically positive definite
        c = [[v + 0.1 * (i % 7), v + 0.1 * (i % 7), x + 0.3 * (i % 3)] for i, (v, _, x) in enumerate(c)]
    q = [[0.0, 3.0, 1.0], [3.0, 0.0, 2.0], [1.0, 2.0, 0.0], [2.0, 2.0, 1.0]]
    extra = "k" if strings else 7
    feats = {arms[0]: [3.0, 4.0], arms[1]: [3.0, 4.0], arms[2]: [-4.0, 3.0], extra: [4.0, 3.0]}
    return arms, extra, d, r, c, q, feats


class Actor:
    def __init__(self, lp, np_, seed, strings, offset=0):
        self.lp, self.np, self.seed, self.strings, self.offset = lp, np_, seed, strings, offset
        self.mab = None
        self.out = []
        self.contextual = np_ is not None or lp.startswith("lin-")

    def step(self, op):
        try:
            self._step(op)
        except Exception as error:  # noqa: an exception is an outcome like any other; it must not depend on the interferer
            self.out.append(("raised", op, type(error).__name__))

    def _step(self, op):
        from mabwiser.mab import MAB
        arms, extra, d, r, c, q, feats = data(self.lp, self.strings)
        o = self.offset
        if op == "construct":
            lpo, npo = policies(self.lp, self.np)
            self.mab = MAB(list(arms), lpo, npo, seed=self.seed)
        elif op == "fit":
            sl = slice(o, o + 12)
            self.mab.fit(d[sl], r[sl], c[sl]) if self.contextual else self.mab.fit(d[sl], r[sl])
            self.out.append(("fitted", repr(snapshot(self.mab._imp, rng=True))))
        elif op == "partial_fit":
            sl = slice(12, 18)
            # four rows for the new arm: its tree has a real split, tied between the two identical columns
            dd = [extra if i < 4 else x for i, x in enumerate(d[sl])]
            rr = [0.0, 0.0, 1.0, 1.0] + r[sl][4:]
            cc = [[float(i), float(i), 1.0] for i in range(4)] + c[sl][4:]
            self.mab.partial_fit(dd, rr, cc) if self.contextual else self.mab.partial_fit(dd, rr)
        elif op == "add_arm":
            self.mab.add_arm(extra)
        elif op == "warm_start":
            self.mab.warm_start({a: feats[a] for a in self.mab.arms}, 1.0)
            self.out.append(("cold", list(self.mab.cold_arms)))
        elif op == "predict":
            self.out.append(("predict", self.mab.predict(q) if self.contextual else [self.mab.predict() for _ in range(3)]))
        elif op == "predict_expectations":
            self.out.append(("expect", self.mab.predict_expectations(q) if self.contextual else self.mab.predict_expectations()))
        elif op == "global_draw":
            np.random.rand(3)
            pyrandom.random()
        elif op == "global_seed":
            np.random.seed(self.seed)
            pyrandom.seed(self.seed)

    def digest(self):
        return hashlib.sha1(repr(snapshot(self.out)).encode()).hexdigest()


def run_schedule(lp, np_, sched, strings, b_kind):
    """sched: sequence of "A"/"B"; returns digest of A's outputs."""
    warnings.filterwarnings("ignore")
    np.random.seed(4242)
    pyrandom.seed(4242)
    a = Actor(lp, np_, 0 if strings else 7, strings)      # 0 is a legal seed like any other
    blp, bnp = (lp, np_) if b_kind in ("same", "clone") else ("ucb1", "default-tree" if np_ != "default-tree" else "tree")
    b = Actor(blp, bnp, 8, strings, offset=3)
    ia = ib = 0
    for who in sched:
        if who == "A":
            a.step(SCRIPT_A[ia])
            ia += 1
        else:
            if b_kind == "clone" and SCRIPT_B[ib] == "construct" and a.mab is not None:
                b.mab = copy.deepcopy(a.mab)          # the other instance is a deep copy of the observed one, taken right now
            else:
                b.step(SCRIPT_B[ib])
            ib += 1
    return a.digest(), a.out


def solo(lp, np_, strings):
    return run_schedule(lp, np_, ["A"] * len(SCRIPT_A), strings, "same")


def combos(tier, seed):
    allc = [(lp, np_) for np_ in NPS for lp in LPS if valid(lp, np_)]
    if tier == "thorough":
        return allc
    pick = [c for i, c in enumerate(allc) if (i + seed) % 4 == 0]
    must = [("eg", "default-tree"), ("ts", "tree"), ("ucb1", "tree"), ("ucb1", None), ("lin-ts", None), ("softmax", "default-lsh"),
            ("lin-ts-tiny", None)]
    return pick + [c for c in must if c not in pick]


def in_process(schedules, tier, seed, findings, counters):
    for lp, np_ in combos(tier, seed):
        for strings in (False, True):
            ref, ref_out = solo(lp, np_, strings)
            for k, sched in enumerate(schedules):
                for b_kind in (("same", "other", "clone")[(k + seed) % 3],):
                    got, out = run_schedule(lp, np_, sched, strings, b_kind)
                    counters["schedules"] = counters.get("schedules", 0) + 1
                    if got != ref:
                        first = next((i for i, (x, y) in enumerate(zip(out, ref_out)) if repr(snapshot(x)) != repr(snapshot(y))), None)
                        findings.append({"clause": "isolation.in_process", "op": "schedule", "engine": "multi",
                                         "detail": "lp=%s np=%s string arms=%s: interleaving %s with an interferer (%s, seed 8, "
                                                   "global generator draws) changes output #%s of the observed bandit: %s instead of %s"
                                                   % (lp, np_, strings, "".join(sched), b_kind, first,
                                                      repr(out[first])[:300] if first is not None else "?",
                                                      repr(ref_out[first])[:300] if first is not None else "?"),
                                         "label": {"sched": sched, "b": b_kind}, "path": [], "binding": {"lp": lp, "np": np_, "strings": strings}})
                        break


WORKER = r'''
import json, os, sys, warnings
warnings.filterwarnings("ignore")
sys.path.insert(0, os.environ["VERIF_ROOT"])
from harness import multi
spec = json.loads(sys.argv[1])
out = {}
for lp, np_, strings in spec["cases"]:
    out["%s|%s|%s" % (lp, np_, strings)] = multi.solo(lp, np_, strings)[0]
print("RESULT " + json.dumps(out))
'''


def across_processes(tier, seed, findings, counters, root):
    cases = [(lp, np_, s) for lp, np_ in combos(tier, seed) for s in (False, True)]
    here = {"%s|%s|%s" % (lp, np_, s): solo(lp, np_, s)[0] for lp, np_, s in cases}
    hashseeds = ["0", "1", "random", "12345"] if tier == "thorough" else ["0", "1", "random"]
    procs = []
    for hs in hashseeds:
        env = dict(os.environ)
        env.update({"PYTHONHASHSEED": hs, "VERIF_ROOT": root, "OMP_NUM_THREADS": "1", "OPENBLAS_NUM_THREADS": "1",
                    "MKL_NUM_THREADS": "1", "PYTHONPATH": root + os.pathsep + env.get("PYTHONPATH", "")})
        procs.append((hs, subprocess.Popen([sys.executable, "-c", WORKER, json.dumps({"cases": cases})], env=env,
                                           stdout=subprocess.PIPE, stderr=subprocess.PIPE)))
    for hs, proc in procs:
        stdout, stderr = proc.communicate(timeout=1500)
        line = next((l for l in stdout.decode().splitlines() if l.startswith("RESULT ")), None)
        if line is None:
            raise RuntimeError("interpreter with PYTHONHASHSEED=%s failed: %s" % (hs, stderr.decode()[-1500:]))
        there = json.loads(line[7:])
        for key, digest in there.items():
            counters["process_runs"] = counters.get("process_runs", 0) + 1
            if digest != here[key]:
                lp, np_, strings = key.split("|")
                findings.append({"clause": "isolation.process", "op": "process", "engine": "multi",
                                 "detail": "lp=%s np=%s string arms=%s: the scripted scenario gives another digest in a fresh "
                                           "interpreter with PYTHONHASHSEED=%s than in this process" % (lp, np_, strings, hs),
                                 "label": {"hashseed": hs}, "path": [], "binding": {"lp": lp, "np": np_, "strings": strings}})
