"""Entry point:  ./check <ID> [--tier quick|thorough] [--replay file]

exit 0  the property held on everything explored (KNOWN-FINDING lines may be printed)
exit 1  violation(s): one line `VIOLATION property=<id> replay=<path>` each
exit 2  the machinery failed (never a verdict)
"""
import argparse
import json
import os
import sys
import traceback


def main(argv=None):
    parser = argparse.ArgumentParser()
    parser.add_argument("prop")
    parser.add_argument("--tier", default=None, choices=["quick", "thorough"])
    parser.add_argument("--replay", default=None)
    args = parser.parse_args(argv)
    if args.tier is None:        # the flag given in the registered commands decides; VERIF_TIER only fills in when it is absent
        args.tier = os.environ["VERIF_TIER"] if os.environ.get("VERIF_TIER") in ("quick", "thorough") else "quick"
    seed = int(os.environ.get("VERIF_SEED", "1") or 1)
    from harness import common, props
    try:
        if args.prop not in props.CHECKS:
            print("unknown property %s" % args.prop)
            return 2
        if args.replay:
            return props.replay(args.prop, args.replay)
        report = common.Report(args.prop, args.tier, seed)
        props.CHECKS[args.prop](report)
        return common.finish(report)
    except common.Machinery as error:
        print("MACHINERY-FAILURE %s: %s" % (args.prop, error))
        return 2
    except Exception:  # noqa
        traceback.print_exc()
        print("MACHINERY-FAILURE %s: unexpected exception in the harness" % args.prop)
        return 2


if __name__ == "__main__":
    sys.exit(main())
