"""Leg C for the context-free policies: long seeded histories with wide values on real bandits, validated by
spec/TraceMab.tla (accumulators exactly, Inv_C01_* in every state) and, through the exact terms TLC prints, against
the stored expectations."""
import json
import os
import random
import tempfile
from fractions import Fraction

import numpy as np

from harness import terms, tlc
from harness.cf import CFBinding

LABELS = ["a", "b", "c", "d", "e", "f"]
LM = {"a": 10, "b": 20, "c": 5, "d": 7, "e": 300, "f": -4}


def scenario(lp, rnd, unit, steps):
    from mabwiser.mab import MAB
    binding = CFBinding(lp, labelmap="int", unit=unit, alpha=1.25, tau=2)
    binding.lm = dict(LM)
    binding.inv = {v: k for k, v in LM.items()}
    small = lp == "pop"       # the normalised shares are sums of fractions: denominators must stay below 2^31 in TLC
    n_arms = rnd.randrange(2, 4) if small else rnd.randrange(2, 6)
    arms = LABELS[:n_arms]
    spare = LABELS[n_arms:4] if small else LABELS[n_arms:]
    mab = MAB([LM[a] for a in arms], binding.policy(), seed=rnd.randrange(1000))
    if lp == "ts":
        values = [0, 1]
    elif lp == "pop":
        values = [0, 1, 2, 3, 5, 8, 0]
    else:
        values = [0, 1, -3, 7, 2 ** 16, -(2 ** 15), 5 * 2 ** 10, 3]
    events, stored = [], []
    u = Fraction(unit)

    def batch(n):
        pool = list(arms) + ([rnd.choice(spare)] if spare and rnd.random() < 0.2 else [])     # now and then a label that is not an arm
        return [(rnd.choice(pool), rnd.choice(values)) for _ in range(n)]

    def post():
        imp = mab._imp
        acc = {}
        for a in arms:
            arm = LM[a]
            if lp == "ts":
                acc[a] = [int(imp.arm_to_success_count[arm]), int(imp.arm_to_fail_count[arm])]
            elif lp == "random":
                acc[a] = [0, 0]
            else:
                s = Fraction(float(imp.arm_to_sum[arm])) / u
                acc[a] = [int(s) if s.denominator == 1 else -999999, int(imp.arm_to_count[arm])]
        stored.append({a: float(imp.arm_to_expectation[LM[a]]) for a in arms} if lp not in ("ts", "random") else None)
        return {"arms": list(arms), "acc": acc, "total": int(getattr(imp, "total_count", 0))}

    def train(op, rows):
        d = np.asarray([LM[a] for a, _ in rows])
        r = np.asarray([float(v * u) for _, v in rows]) if lp != "ts" else np.asarray([int(v) for _, v in rows])
        getattr(mab, op)(d, r)
        events.append({"op": op, "batch": [{"a": a, "r": v} for a, v in rows], "arm": "", "post": post()})

    train("fit", batch(rnd.randrange(1, 5 if small else 30)))
    for _ in range(min(steps, 7) if small else steps):
        roll = rnd.random()
        if roll < 0.55:
            train("partial_fit", batch(rnd.choice([1, 1, 2, 3] if small else [1, 1, 2, 3, 10, 50])))
        elif roll < 0.7 and spare:
            a = spare.pop(0)
            mab.add_arm(LM[a])
            arms.append(a)
            events.append({"op": "add_arm", "arm": a, "batch": [], "post": post()})
        elif roll < 0.85 and len(arms) > 2:
            a = rnd.choice(arms)
            mab.remove_arm(LM[a])
            arms.remove(a)
            spare.append(a)
            events.append({"op": "remove_arm", "arm": a, "batch": [], "post": post()})
        else:
            train("fit", batch(rnd.randrange(1, 4 if small else 20)))
    return {"arms": LABELS[:n_arms], "events": events}, stored, binding


def run(report, lps, seed, n, steps, keep):
    rnd = random.Random(seed)
    for lp in lps:
        unit = "1/4" if lp not in ("ts",) and rnd.random() < 0.5 else 1
        items = [scenario(lp, rnd, unit, steps) for _ in range(n)]
        traces = [t for t, _, _ in items]
        handle, path = tempfile.mkstemp(prefix="mabtrace_", suffix=".json")
        try:
            with os.fdopen(handle, "w") as out:
                json.dump(traces, out)
            consts = dict(LP=lp, Labels=set(LABELS), InitArms=["a", "b"], Rewards={0, 1}, MaxBatch=1, MaxHist=1000000, MaxDepth=1000000,
                          Ops={"fit", "partial_fit", "add_arm", "remove_arm"}, InitBin="none", NewBins={"keep"},
                          Thr={x: 1 for x in LABELS}, FeatSets=[{x: [3, 4] for x in LABELS}], Quantiles={(1, 2)},
                          RejectKinds=set(), QueryRows={0}, Dev=set())
            result = tlc.run("TraceMab", consts, init="TInit", next_="TNext", view="TView", constraint=None, invariants=["Done"],
                             workers=1, timeout=1500, env={"TRACE_FILE": path})
        finally:
            os.unlink(path)
        done, fails = set(), {}
        for line in result.raw.splitlines():
            line = line.strip()
            if line.startswith('<<"DONE"'):
                done.add(int(line.split(",")[1].strip(" >")))
            elif line.startswith('<<"FAIL"'):
                parts = [p.strip(' <>"') for p in line.split(",")]
                fails.setdefault(int(parts[1]), (int(parts[2]), parts[3]))
        report.add_tlc("TraceMab/%s" % lp, result, note="%d recorded histories with wide values (unit %s)" % (n, unit))
        report.traces += n
        report.count("mabtrace.events", sum(len(t["events"]) for t in traces))
        terms_by = {(e["tid"], e["l"]): e for e in result.edges}
        for tid, (trace, stored, binding) in enumerate(items, 1):
            if not (tid in done and tid not in fails):
                pos, clause = fails.get(tid, (None, "action.disabled"))
                event = trace["events"][pos - 1] if pos else None
                finding = {"clause": "mabtrace." + clause, "op": event["op"] if event else "?", "engine": "mabtrace", "path": [],
                           "detail": "TLC rejects a recorded %s history at event %s (clause %s): %s"
                                     % (lp, pos, clause, json.dumps(event)[:500]),
                           "label": {"event": pos, "trace": trace if len(json.dumps(trace)) < 4000 else None},
                           "binding": binding.describe()}
                if keep(finding):
                    report.findings.append(finding)
                continue
            if lp in ("ts", "random"):
                continue
            for pos, got in enumerate(stored, 1):
                item = terms_by.get((tid, pos))
                if item is None or got is None:
                    continue
                report.count("mabtrace.expectations_compared", len(item["arms"]))
                for a in item["arms"]:
                    want = binding.expected_value(item["expv"][a])
                    ok = (got[a] == want) if lp == "eg" else terms.close(got[a], want, 1e-12, 1e-15)
                    if not ok:
                        finding = {"clause": "mabtrace.expv", "op": trace["events"][pos - 1]["op"], "engine": "mabtrace", "path": [],
                                   "detail": "%s history, event %d: arm %s holds expectation %r, the documented value is %r (term %s)"
                                             % (lp, pos, a, got[a], want, json.dumps(item["expv"][a])[:200]),
                                   "label": {"event": pos}, "binding": binding.describe()}
                        if keep(finding):
                            report.findings.append(finding)
                        break
                else:
                    continue
                break
        if len(report.samples) < 8 and traces:
            report.samples.append({"engine": "recorded history validated by TraceMab.tla", "lp": lp, "events": traces[0]["events"][:3]})
