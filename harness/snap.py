"""Generic deep snapshots of bandit objects for implementation-versus-implementation comparisons.

snapshot(obj) turns an arbitrary object graph into a nested tuple structure that can be compared with
== and hashed.  It does not know attribute names, so a refactoring of the library does not break it and
a change that hides state in a new attribute is still seen.  Random generators are reduced to their
bit-generator state (or dropped with rng=False); floats keep their exact bits; NaN compares equal to
NaN; empty entries of defaultdicts (created by mere look-ups) are ignored.
"""
import collections
import math
import pickle
import struct
import types

import numpy as np


def _float(x):
    """Numbers compare by value: 0 and 0.0 are the same observation; other floats bit for bit."""
    if x != x:
        return ("nan",)
    x = float(x)
    if x.is_integer() and abs(x) < 2.0 ** 53:
        return int(x)
    return ("f", struct.pack("<d", x))


def snapshot(obj, rng=True, skip=(), _memo=None, _depth=0, _ordered=False):
    """skip: attribute names left out wherever they occur (observation-only caches)."""
    if _memo is None:
        _memo = {}
    if _depth > 60:
        return ("deep",)
    if obj is None or isinstance(obj, (bool, str, bytes)):
        return obj
    if isinstance(obj, (int, np.integer)):
        return int(obj)
    if isinstance(obj, (float, np.floating)):
        return _float(obj)
    if isinstance(obj, np.ndarray):
        if obj.dtype == object:
            return ("arr_o", obj.shape, tuple(snapshot(x, rng, skip, _memo, _depth + 1) for x in obj.ravel().tolist()))
        if obj.dtype.kind in "fiub":
            data = np.ascontiguousarray(obj, dtype=np.float64)
            # NaN payloads are irrelevant
            data = np.where(np.isnan(data), np.nan, data)
            return ("arr_f", obj.shape, data.tobytes())
        return ("arr", obj.dtype.kind, obj.shape, np.ascontiguousarray(obj).tolist().__repr__())
    if isinstance(obj, np.random.Generator):
        return ("gen", _state(obj.bit_generator.state)) if rng else ("gen",)
    if isinstance(obj, np.random.RandomState):
        return ("rs", repr(obj.get_state())) if rng else ("rs",)
    key = id(obj)
    if isinstance(obj, (list, tuple)):
        return (type(obj).__name__,) + tuple(snapshot(x, rng, skip, _memo, _depth + 1) for x in obj)
    if isinstance(obj, (set, frozenset)):
        return ("set",) + tuple(sorted((snapshot(x, rng, skip, _memo, _depth + 1) for x in obj), key=repr))
    if isinstance(obj, dict):
        items = []
        for k, v in obj.items():
            if isinstance(obj, collections.defaultdict) and _is_empty(v):
                continue            # created by a look-up, unobservable
            items.append((snapshot(k, rng, skip, _memo, _depth + 1), snapshot(v, rng, skip, _memo, _depth + 1)))
        if not _ordered:
            items.sort(key=repr)      # only per-arm maps (attributes named arm_to_*) have an observable order
        return ("dict",) + tuple(items)
    if isinstance(obj, (types.FunctionType, types.BuiltinFunctionType, types.MethodType, type)):
        return ("fn", getattr(obj, "__module__", ""), getattr(obj, "__qualname__", repr(obj)))
    if key in _memo:
        return ("ref", _memo[key])
    _memo[key] = len(_memo)
    name = type(obj).__module__ + "." + type(obj).__qualname__
    if name.startswith("sklearn.tree._tree"):
        state = obj.__getstate__()
        return ("sk", name, snapshot(state, rng, skip, _memo, _depth + 1))
    if hasattr(obj, "__dict__"):
        attrs = []
        for k in sorted(vars(obj)):
            if k in skip or k.startswith("_verif_"):      # notes the bindings keep on the object are not part of it
                continue
            attrs.append((k, snapshot(vars(obj)[k], rng, skip, _memo, _depth + 1, _ordered=k.startswith("arm_to_"))))
        return ("obj", name) + tuple(attrs)
    if hasattr(obj, "__getstate__"):
        try:
            return ("st", name, snapshot(obj.__getstate__(), rng, skip, _memo, _depth + 1))
        except Exception:
            pass
    try:
        return ("pk", name, pickle.dumps(obj, protocol=4))
    except Exception:
        return ("opaque", name)


def _is_empty(v):
    try:
        return len(v) == 0
    except TypeError:
        return False


def _state(state):
    if isinstance(state, dict):
        return tuple((k, _state(v)) for k, v in sorted(state.items()))
    if isinstance(state, np.ndarray):
        return state.tobytes()
    return state


def diff(a, b, path="", out=None, limit=6):
    """Human-readable paths at which two snapshots differ."""
    if out is None:
        out = []
    if len(out) >= limit:
        return out
    if type(a) != type(b) or not isinstance(a, tuple):
        if a != b:
            out.append("%s: %s != %s" % (path or ".", _short(a), _short(b)))
        return out
    if len(a) != len(b):
        out.append("%s: length %d != %d" % (path or ".", len(a), len(b)))
        return out
    for i, (x, y) in enumerate(zip(a, b)):
        if x != y:
            label = str(i)
            if isinstance(x, tuple) and len(x) == 2 and isinstance(x[0], str):
                label = x[0]
            diff(x, y, path + "/" + label, out, limit)
    return out


def _short(x):
    text = repr(x)
    return text if len(text) < 80 else text[:77] + "..."


def generators(obj, _seen=None, _out=None, _path=""):
    """All numpy Generators reachable from obj, as (path, generator) in deterministic order."""
    if _seen is None:
        _seen, _out = set(), []
    if id(obj) in _seen:
        return _out
    if isinstance(obj, np.random.Generator):
        _seen.add(id(obj))
        _out.append((_path, obj))
        return _out
    if isinstance(obj, (str, bytes, int, float, np.ndarray, type(None), bool)):
        return _out
    _seen.add(id(obj))
    if isinstance(obj, dict):
        for k, v in obj.items():
            generators(v, _seen, _out, _path + "[%r]" % (k,))
    elif isinstance(obj, (list, tuple)):
        for i, v in enumerate(obj):
            generators(v, _seen, _out, _path + "[%d]" % i)
    elif hasattr(obj, "__dict__") and not isinstance(obj, (types.FunctionType, type, types.ModuleType)):
        for k in sorted(vars(obj)):
            generators(vars(obj)[k], _seen, _out, _path + "." + k)
    return _out


def generator_paths(obj):
    """Every numpy Generator reachable from obj with ALL the attribute paths that lead to it."""
    found = {}

    def walk(x, path, stack):
        if isinstance(x, np.random.Generator):
            found.setdefault(id(x), (x, set()))[1].add(path)
            return
        if isinstance(x, (str, bytes, int, float, np.ndarray, type(None), bool)) or id(x) in stack:
            return
        stack = stack | {id(x)}
        if len(stack) > 40:
            return
        if isinstance(x, dict):
            for k, v in x.items():
                walk(v, path + "[%r]" % (k,), stack)
        elif isinstance(x, (list, tuple)):
            for i, v in enumerate(x):
                walk(v, path + "[%d]" % i, stack)
        elif hasattr(x, "__dict__") and not isinstance(x, (types.FunctionType, type, types.ModuleType)):
            for k in sorted(vars(x)):
                walk(vars(x)[k], path + "." + k, stack)

    walk(obj, "", frozenset())
    return list(found.values())


def copy_streams(src, dst):
    """Put every generator of dst at the position of the corresponding generator of src.  Generators correspond
    when they are reachable through a common attribute path (aliases and caches may add further paths).
    Returns False when the correspondence is not one-to-one."""
    a, b = generator_paths(src), generator_paths(dst)
    if len(a) != len(b):
        return False
    pairs, used = [], set()
    for ga, pa in a:
        match = [j for j, (gb, pb) in enumerate(b) if j not in used and pa & pb]
        if len(match) != 1:
            return False
        used.add(match[0])
        pairs.append((ga, b[match[0]][0]))
    for ga, gb in pairs:
        gb.bit_generator.state = ga.bit_generator.state
    return True


def same(x, y):
    """Equality of outputs: NaN equals NaN, floats bit for bit, containers recursively."""
    return snapshot(x) == snapshot(y)
