#!/bin/bash
# usage: tools/mutcheck.sh <patch.diff> <ID> [<ID>...]   - runs checks against a scratch worktree of /repo with the patch applied
set -u
patch="$1"; shift
wt=/tmp/mutwt_$$
git -C /repo worktree add -q --detach "$wt" HEAD || exit 2
trap 'git -C /repo worktree remove --force "$wt" >/dev/null 2>&1' EXIT
if ! git -C "$wt" apply "$patch" 2>/dev/null; then
  if ! git -C "$wt" apply --3way "$patch" >/dev/null 2>&1; then echo "PATCH DOES NOT APPLY: $patch"; exit 3; fi
fi
for id in "$@"; do
  out=$(cd /verif && MABWISER_REPO="$wt" VERIF_EVIDENCE_DIR=/tmp/mutev_$$ ./check "$id" --tier "${TIER:-quick}" 2>&1)
  rc=$?
  echo "[$id] exit=$rc $(echo "$out" | grep -c '^VIOLATION') violation line(s)"
  echo "$out" | grep -A1 '^VIOLATION' | head -4 | cut -c1-300
  [ $rc -eq 2 ] && echo "$out" | tail -5
done
rm -rf /tmp/mutev_$$
