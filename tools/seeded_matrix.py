#!/venv/bin/python
"""Runs the checks against every seeded change (scratch worktrees, never /repo itself) and records in
seeded/<id>/meta.json which checks report a violation.  usage: tools/seeded_matrix.py [id ...]"""
import json, os, subprocess, sys, concurrent.futures
ROOT = os.path.dirname(os.path.dirname(os.path.abspath(__file__)))
EXTRA = {"C01_1": ["C07"], "C01_2b": ["C06"], "C06_1": ["C02"], "C06_2": ["C14", "C20"], "C07_1": ["C13"], "C08_1": ["C09"],
         "C08_2": ["C17"], "C12_1": ["C05"], "C13_2": ["C07"], "C20_1": ["C13"], "C20_2": ["C14"], "C10_2": ["C13"],
         "revF4": ["C11"], "revF6": ["C18"], "revF11": ["C03"], "revF14": ["C06"],
         "C01_4": ["C14"], "C03_4": ["C18"], "C08_4": ["C18"], "C14_4": ["C18"], "C02_5": ["C08"], "C04_6": ["C19"],
         "C07_6": ["C05"], "C18_6": ["C14"], "C09_5": ["C08"], "C10_6": ["C14"], "C12_5": ["C10"], "C16_5": ["C15"],
         "C17_6": ["C07"], "C20_6": ["C03"], "C03_5": ["C18"], "revF23": ["C06"], "revF24": ["C16"]}

def one(name):
    d = os.path.join(ROOT, "seeded", name)
    meta = json.load(open(os.path.join(d, "meta.json")))
    if meta.get("superseded"):
        return name, []          # no longer a violation on the current tree (a later repair neutralised it)
    props = [meta["property"]] + EXTRA.get(name, [])
    out = subprocess.run([os.path.join(ROOT, "tools", "mutcheck.sh"), os.path.join(d, "patch.diff")] + props,
                         stdout=subprocess.PIPE, stderr=subprocess.STDOUT).stdout.decode()
    det = []
    for line in out.splitlines():
        if line.startswith("[") and "exit=" in line:
            pid = line[1:line.index("]")]
            rc = int(line.split("exit=")[1].split()[0])
            det.append({"check": pid, "tier": os.environ.get("TIER", "quick"), "exit": rc})
    clauses = [l.strip() for l in out.splitlines() if l.strip().startswith("clause=")]
    meta["detected_by"] = det
    meta["first_report"] = clauses[0][:300] if clauses else None
    json.dump(meta, open(os.path.join(d, "meta.json"), "w"), indent=1)
    return name, det

names = sys.argv[1:] or sorted(os.listdir(os.path.join(ROOT, "seeded")))
with concurrent.futures.ThreadPoolExecutor(int(os.environ.get("PAR", "3"))) as pool:
    for name, det in pool.map(one, names):
        print(name, " ".join("%s:%s" % (d["check"], "DETECTED" if d["exit"] == 1 else "missed" if d["exit"] == 0 else "error") for d in det), flush=True)
