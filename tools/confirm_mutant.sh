#!/bin/bash
# usage: tools/confirm_mutant.sh <name> <patch> <demo.py> <meta.json>
# Confirms a seeded change in a scratch worktree of /repo (HEAD): patch applies, the demonstration passes without and fails
# with it, the complete existing suite still passes with it.  Writes /verif/seeded/<name>/{patch.diff,demo.py,meta.json}.
name="$1"; patch="$2"; demo="$3"; meta="$4"
wt=/tmp/confirm_$name
git -C /repo worktree add -q --detach "$wt" HEAD || exit 2
trap 'git -C /repo worktree remove --force "$wt" >/dev/null 2>&1' EXIT
export OMP_NUM_THREADS=1 OPENBLAS_NUM_THREADS=1 PYTHONDONTWRITEBYTECODE=1
cd "$wt"
PYTHONPATH="$wt" timeout 300 /venv/bin/python "$demo" >/dev/null 2>&1; clean_rc=$?
if ! git apply "$patch" 2>/dev/null; then git apply --3way "$patch" >/dev/null 2>&1 || { echo "$name: PATCH DOES NOT APPLY"; exit 3; }; fi
git diff HEAD > /tmp/confirm_$name.diff
PYTHONPATH="$wt" timeout 300 /venv/bin/python "$demo" >/dev/null 2>&1; mut_rc=$?
suite=$(PYTHONPATH="$wt" timeout 1500 /venv/bin/python -m pytest -q -p no:cacheprovider --deselect tests/test_ridge.py::RidgeRegressionTest::test_predict_ridge_scaler -x 2>&1 | tail -1)
echo "$name: demo clean rc=$clean_rc, demo with change rc=$mut_rc, suite: $suite"
ok=0
if [ "$clean_rc" = "0" ] && [ "$mut_rc" != "0" ] && echo "$suite" | grep -q "584 passed"; then ok=1; fi
if [ $ok = 1 ]; then
  mkdir -p /verif/seeded/$name
  cp /tmp/confirm_$name.diff /verif/seeded/$name/patch.diff
  cp "$demo" /verif/seeded/$name/demo.py
  /venv/bin/python - "$name" "$meta" "$suite" "$clean_rc" "$mut_rc" <<'PY'
import json, sys, subprocess
name, meta, suite, c, m = sys.argv[1:6]
src = json.load(open(meta))
head = subprocess.run(["git", "-C", "/repo", "rev-parse", "--short", "HEAD"], stdout=subprocess.PIPE).stdout.decode().strip()
out = {"id": name, "property": src.get("property"), "summary": src.get("summary"), "needs": src.get("needs"), "files": src.get("files"),
       "origin": "written by an independent sub-agent that saw only the property text and a scratch worktree",
       "confirmed": {"repo_head": head, "demo_exit_clean": int(c), "demo_exit_with_change": int(m), "suite_with_change": suite,
                     "how": "tools/confirm_mutant.sh: scratch git worktree of /repo, PYTHONPATH=<worktree>, full pytest suite"},
       "detected_by": []}
json.dump(out, open("/verif/seeded/%s/meta.json" % name, "w"), indent=1)
PY
else
  echo "$name: NOT CONFIRMED"
fi
rm -f /tmp/confirm_$name.diff
