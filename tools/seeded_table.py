#!/venv/bin/python
"""Regenerates the table of seeded changes in DESIGN.md (between the SEEDED markers) from seeded/*/meta.json."""
import json, os, re
ROOT = os.path.dirname(os.path.dirname(os.path.abspath(__file__)))
rows = []
for name in sorted(os.listdir(os.path.join(ROOT, "seeded"))):
    path = os.path.join(ROOT, "seeded", name, "meta.json")
    if not os.path.exists(path):
        continue
    m = json.load(open(path))
    det = m.get("detected_by") or []
    caught = [d["check"] for d in det if d["exit"] == 1]
    if m.get("superseded"):
        caught = ["(%s when written; neutralised since by a repair commit, see meta.json)" % m["property"]]
    missed = [d["check"] for d in det if d["exit"] == 0]
    summary = (m.get("summary") or "").replace("|", "/").replace("\n", " ")
    if len(summary) > 230:
        summary = summary[:227] + "..."
    rows.append("| %s | %s | %s | %s | %s |" % (name, m.get("property"), summary, ", ".join(caught) or "-", ", ".join(missed) or "-"))
table = ("All changes below were confirmed in a scratch worktree (`tools/confirm_mutant.sh`): the patch applies, the demonstration\n"
         "passes without and fails with it, and the complete existing suite still reports 584 passed.  `C??_k` were written by\n"
         "independent sub-agents that saw only the property text; `revF?` are reverse patches of the repair commits.  \"caught by\" /\n"
         "\"not caught by\" list the quick-tier checks that were run against the change (`tools/seeded_matrix.py`).\n\n"
         "| change | breaks | what it does | caught by | run but not caught by |\n|---|---|---|---|---|\n" + "\n".join(rows))
p = os.path.join(ROOT, "DESIGN.md")
s = open(p).read()
if "SEEDED_TABLE" in s:
    s = s.replace("SEEDED_TABLE", "<!-- SEEDED-BEGIN -->\n" + table + "\n<!-- SEEDED-END -->")
else:
    s = re.sub(r"<!-- SEEDED-BEGIN -->.*?<!-- SEEDED-END -->", lambda _: "<!-- SEEDED-BEGIN -->\n" + table + "\n<!-- SEEDED-END -->", s, flags=re.S)
open(p, "w").write(s)
print(len(rows), "rows")
