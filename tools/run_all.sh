#!/bin/bash
# runs every check's quick (or $TIER) command on the current tree and prints one line per check
cd "$(dirname "$0")/.."
for id in $(python3 -c "import json; print(' '.join(c['property_id'] for c in json.load(open('MANIFEST.json'))['checks']))"); do
  s=$(date +%s); out=$(./check $id --tier ${TIER:-quick} 2>&1); rc=$?; e=$(( $(date +%s) - s ))
  echo "$id exit=$rc ${e}s $(echo "$out" | grep -c '^VIOLATION') violations, $(echo "$out" | grep -c '^KNOWN-FINDING') known"
  [ $rc -ne 0 ] && echo "$out" | grep -A1 "^VIOLATION\|MACHINERY" | head -6
done
