#!/venv/bin/python
"""Records in seeded/<name>/meta.json what a tools/mutcheck.sh log says.  usage: tools/record_mc.py <name> <log> [<name> <log> ...]"""
import json, os, sys
ROOT = os.path.dirname(os.path.dirname(os.path.abspath(__file__)))
args = sys.argv[1:]
for name, log in zip(args[0::2], args[1::2]):
    text = open(log, errors="replace").read()
    det, clauses = [], []
    for line in text.splitlines():
        if line.startswith("[") and "exit=" in line:
            det.append({"check": line[1:line.index("]")], "tier": "quick", "exit": int(line.split("exit=")[1].split()[0])})
        if line.strip().startswith("clause="):
            clauses.append(line.strip())
    path = os.path.join(ROOT, "seeded", name, "meta.json")
    meta = json.load(open(path))
    meta["detected_by"] = det
    meta["first_report"] = clauses[0][:300] if clauses else None
    json.dump(meta, open(path, "w"), indent=1)
    print(name, " ".join("%s:%s" % (d["check"], {1: "DETECTED", 0: "missed"}.get(d["exit"], "error")) for d in det))
